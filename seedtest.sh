#!/bin/bash
# usage: seedtest.sh <seeded-dir-name> <prop> [more props...] — applies seeded/<name>/patch.diff to /repo, runs checks, reverts
name=$1; shift
cd /repo
if git status --short | grep -v '^??' | grep -v ' compiler$\| ferret$' | grep -q .; then echo "REFUSING: /repo has uncommitted tracked changes"; git status --short | grep -v '^??'; exit 2; fi
git apply /verif/seeded/$name/patch.diff || { echo "patch does not apply"; exit 2; }
cd /verif
for p in "$@"; do timeout 1500 ./check $p 2>&1 | cut -c1-330 | tail -8; echo "exit($p)=${PIPESTATUS[0]}"; done
cd /repo && git apply -R /verif/seeded/$name/patch.diff && git status --short | grep -v "^??" | head
