#!/opt/veriftools/pyvenv/bin/python
import json,jsonschema,sys,glob
m=json.load(open('/verif/MANIFEST.json')); jsonschema.validate(m,json.load(open('/root/.vp/MANIFEST.schema.json')))
for c in m['checks']:
    p='/verif/'+c['evidence_file']
    try:
        jsonschema.validate(json.load(open(p)),json.load(open('/root/.vp/EVIDENCE.schema.json')))
    except Exception as e:
        print("EVIDENCE PROBLEM",p,str(e)[:300])
ids={json.loads(l)['id'] for l in open('/verif/properties.jsonl')}
claimed={c['property_id'] for c in m['checks']}
na={n['property_id'] for n in m.get('not_applicable',[])}
print("claimed",sorted(claimed)); print("unaccounted",sorted(ids-claimed-na))
