#!/usr/bin/env python3
"""Bounded native stand-ins for runtime functions the symbolic engine cannot reach (data-dependent
128/256-iteration loops, loops over text).  The REAL runtime/core/bigint.c is compiled into a
driver (it is #included, so static functions are reachable), run on a stated, deterministic family
of inputs and compared with Python's unbounded integers.  Everything here is labelled `bounded`
and is never counted as proved."""
import os, random, subprocess, sys

DRIVER = r'''
#include "bigint.c"
#include <stdio.h>
#include <string.h>
static void put(const ferret_limb_t* w, int n) { for (int i = n - 1; i >= 0; i--) printf("%016llx", (unsigned long long)w[i]); }
static void get(const char* hex, ferret_limb_t* w, int n) {
    for (int i = 0; i < n; i++) { char buf[17]; memcpy(buf, hex + (n - 1 - i) * 16, 16); buf[16] = 0; w[i] = strtoull(buf, NULL, 16); }
}
int main(void) {
    static char line[4096];
    while (fgets(line, sizeof line, stdin)) {
        char op[32], a[1024], b[1024]; int n = 0;
        a[0] = b[0] = 0;
        if (sscanf(line, "%31s %d %1023s %1023s", op, &n, a, b) < 3) continue;
        if (!strcmp(op, "divmod")) {
            ferret_limb_t x[4], y[4], q[4], r[4];
            get(a, x, n); get(b, y, n);
            bool ok = ferret_div_mod_u_limbs(x, y, q, r, n);
            printf("%d ", ok ? 1 : 0); put(q, n); printf(" "); put(r, n); printf("\n");
        } else if (!strcmp(op, "fromstr")) {
            /* n: 1=i128 2=u128 3=i256 4=u256 ; a = text ('_' stands for a blank) */
            for (char* p = a; *p; p++) if (*p == '_') *p = ' ';
            if (n == 1) { ferret_i128 v = ferret_i128_from_string(a); put(v.words, 2); }
            if (n == 2) { ferret_u128 v = ferret_u128_from_string(a); put(v.words, 2); }
            if (n == 3) { ferret_i256 v = ferret_i256_from_string(a); put(v.words, 4); }
            if (n == 4) { ferret_u256 v = ferret_u256_from_string(a); put(v.words, 4); }
            printf("\n");
        } else if (!strcmp(op, "tostr")) {
            ferret_limb_t x[4]; char* s = NULL;
            if (n == 1) { ferret_i128 v; get(a, v.words, 2); s = ferret_i128_to_string(v); }
            if (n == 2) { ferret_u128 v; get(a, v.words, 2); s = ferret_u128_to_string(v); }
            if (n == 3) { ferret_i256 v; get(a, v.words, 4); s = ferret_i256_to_string(v); }
            if (n == 4) { ferret_u256 v; get(a, v.words, 4); s = ferret_u256_to_string(v); }
            (void)x; printf("%s\n", s ? s : "(null)");
        }
    }
    return 0;
}
'''

def build(repo, outdir):
    os.makedirs(outdir, exist_ok=True)
    src = os.path.join(outdir, "bounded_driver.c")
    exe = os.path.join(outdir, "bounded_driver")
    open(src, "w").write(DRIVER)
    r = subprocess.run(["cc", "-std=gnu99", "-O2", "-w", "-I", os.path.join(repo, "runtime/core"), "-I", os.path.join(repo, "runtime/libs"),
                        src, "-o", exe, "-lm"], capture_output=True, text=True)
    if r.returncode != 0:
        raise RuntimeError("bounded driver does not build: " + r.stderr[-600:])
    return exe

def boundary(bits):
    vals = {0, 1, 2, 3, 5, 7, 10, 100, (1 << bits) - 1, (1 << bits) - 2, (1 << (bits - 1)), (1 << (bits - 1)) - 1, (1 << (bits - 1)) + 1}
    for k in range(1, bits):
        for d in (-1, 0, 1):
            v = (1 << k) + d
            if 0 <= v < (1 << bits):
                vals.add(v)
    for k in (32, 63, 64, 65, 96, 127, 128, 129, 191, 192, 255):
        if k < bits:
            for m in (3, 10, 0xFFFFFFFF, 0xFFFFFFFFFFFFFFFF):
                v = (m << k) & ((1 << bits) - 1)
                vals.add(v); vals.add((v + 1) & ((1 << bits) - 1)); vals.add((v - 1) & ((1 << bits) - 1))
    return sorted(vals)

def run(exe, lines):
    r = subprocess.run([exe], input="\n".join(lines) + "\n", capture_output=True, text=True, timeout=600)
    if r.returncode != 0:
        raise RuntimeError("bounded driver crashed (exit %d): %s" % (r.returncode, r.stderr[-300:]))
    return r.stdout.split("\n")

def check_divmod(exe, seed=1):
    """ferret_div_mod_u_limbs(a, b) against Python // and % ; returns (cases, first failure or None, family text)"""
    rnd = random.Random(seed)
    cases = []
    for n, bits in ((2, 128), (4, 256)):
        bs = boundary(bits)
        small = [v for v in bs if v < 16 or v >= (1 << bits) - 4 or bin(v).count("1") <= 2][:120]
        pairs = [(a, b) for a in bs for b in small]
        pairs += [(a, b) for a in small for b in bs]
        for _ in range(4000):
            wa, wb = rnd.randrange(1, bits + 1), rnd.randrange(1, bits + 1)
            pairs.append((rnd.getrandbits(wa), rnd.getrandbits(wb)))
        for a, b in pairs:
            cases.append((n, bits, a, b))
    lines = ["divmod %d %0*x %0*x" % (n, bits // 4, a, bits // 4, b) for n, bits, a, b in cases]
    out = run(exe, lines)
    for (n, bits, a, b), o in zip(cases, out):
        parts = o.split()
        ok, q, r = int(parts[0]), int(parts[1], 16), int(parts[2], 16)
        want = (0, 0, 0) if b == 0 else (1, a // b, a % b)
        if (ok, q, r) != want:
            return len(cases), {"n": n, "numer": hex(a), "denom": hex(b), "got": [ok, hex(q), hex(r)], "want": [want[0], hex(want[1]), hex(want[2])]}, ""
    return len(cases), None, "boundary pairs (0..3, 2^k-1/2^k/2^k+1 for every k, limb-boundary multiples; one operand sparse) and 4000 seeded random pairs of random bit lengths, for 2 and 4 limbs"

KINDS = {1: ("i128", 128, True), 2: ("u128", 128, False), 3: ("i256", 256, True), 4: ("u256", 256, False)}

def lit_forms(v):
    """decimal, hex, octal, binary texts of a non-negative value, as the compiler normalises and as users write"""
    return [str(v), "0x%x" % v, "0X%X" % v, "0o%o" % v, "0b%s" % bin(v)[2:]]

def check_fromstr(exe, seed=1):
    rnd = random.Random(seed)
    cases = []
    for kind, (name, bits, signed) in KINDS.items():
        hi = (1 << (bits - 1)) - 1 if signed else (1 << bits) - 1
        vals = set(v for v in boundary(bits) if v <= hi)
        # digit-step structure: c * 2^(64 m) * base^j (+ small), the shapes where one limb is exactly zero mid-parse
        for m in range(1, bits // 64):
            for c in (1, 2, 3, 7, 10, 16, 255):
                for base in (2, 8, 10, 16):
                    for j in range(0, 4):
                        for sm in (0, 1, 9):
                            v = c * (1 << (64 * m)) * (base ** j) + sm
                            if v <= hi:
                                vals.add(v)
        for _ in range(1500):
            vals.add(rnd.getrandbits(rnd.randrange(1, bits)) % (hi + 1))
        for v in sorted(vals):
            for t in lit_forms(v):
                cases.append((kind, t, v))
            if signed:
                cases.append((kind, "-" + str(v), (-v) % (1 << bits)))
                cases.append((kind, "+" + str(v), v))
        if signed:
            cases.append((kind, "-" + str(hi + 1), (hi + 1)))
        cases.append((kind, "__" + str(12345), 12345))
    lines = ["fromstr %d %s" % (k, t) for k, t, _ in cases]
    out = run(exe, lines)
    for (k, t, want), o in zip(cases, out):
        bits = KINDS[k][1]
        got = int(o.strip() or "0", 16)
        if got != want % (1 << bits):
            return len(cases), {"type": KINDS[k][0], "text": t.replace("_", " "), "got": hex(got), "want": hex(want % (1 << bits))}, ""
    return len(cases), None, "every boundary value (2^k-1, 2^k, 2^k+1, limb-boundary multiples), c*2^(64m)*base^j+small for base in {2,8,10,16}, 1500 seeded random values per type; each written in decimal, 0x, 0X, 0o, 0b and with sign where the type is signed"

def check_tostr(exe, seed=1):
    rnd = random.Random(seed)
    cases = []
    for kind, (name, bits, signed) in KINDS.items():
        vals = set(boundary(bits))
        for _ in range(1500):
            vals.add(rnd.getrandbits(rnd.randrange(1, bits + 1)))
        for v in sorted(vals):
            want = v - (1 << bits) if signed and v >> (bits - 1) else v
            cases.append((kind, bits, v, str(want)))
    lines = ["tostr %d %0*x" % (k, bits // 4, v) for k, bits, v, _ in cases]
    out = run(exe, lines)
    for (k, bits, v, want), o in zip(cases, out):
        if o.strip() != want:
            return len(cases), {"type": KINDS[k][0], "bits": hex(v), "got": o.strip(), "want": want}, ""
    return len(cases), None, "every boundary bit pattern and 1500 seeded random patterns per type"

MAP_DRIVER = r'''
#include "map.c"
#include <stdio.h>
#include <string.h>
static uint32_t h_low2(const void* k, size_t n) { (void)n; return (uint32_t)(*(const int32_t*)k) & 3u; }
static uint32_t h_ident(const void* k, size_t n) { (void)n; return (uint32_t)(*(const int32_t*)k); }
static uint32_t h_const(const void* k, size_t n) { (void)k; (void)n; return 7u; }
int main(void) {
    static char line[256];
    ferret_map_t* m = NULL;
    while (fgets(line, sizeof line, stdin)) {
        char op[16]; long long a = 0, b = 0;
        int got = sscanf(line, "%15s %lld %lld", op, &a, &b);
        if (got < 1) continue;
        int32_t k = (int32_t)a; int64_t v = (int64_t)b;
        if (!strcmp(op, "new")) {
            if (m) ferret_map_destroy(m);
            if (a == 0) m = ferret_map_new_i32(4, 8);
            else m = ferret_map_new(4, 8, a == 1 ? h_low2 : a == 2 ? h_ident : h_const, ferret_map_equals_i32);
            printf("new %d\n", m != NULL);
        } else if (!strcmp(op, "set")) {
            printf("set %d\n", (int)ferret_map_set(m, &k, &v));
        } else if (!strcmp(op, "get")) {
            void* p = ferret_map_get(m, &k);
            if (p) printf("get %lld\n", (long long)*(int64_t*)p); else printf("get none\n");
        } else if (!strcmp(op, "opt")) {
            struct { int64_t value; uint8_t flag; uint8_t pad[7]; } o; memset(&o, 0x5a, sizeof o);
            ferret_map_get_optional_out(m, &k, &o);
            ferret_map_get_result_t r = ferret_map_get_optional(m, &k);
            if ((r.is_some != 0) != (o.flag != 0)) printf("opt inconsistent\n");
            else if (o.flag) printf("opt %lld\n", (long long)o.value); else printf("opt none\n");
        } else if (!strcmp(op, "has")) {
            printf("has %d\n", (int)ferret_map_has(m, &k));
        } else if (!strcmp(op, "size")) {
            printf("size %zu\n", ferret_map_size(m));
        } else if (!strcmp(op, "iter")) {
            ferret_map_iter_t it; void *kp, *vp; size_t n = 0;
            printf("iter");
            if (ferret_map_iter_begin(m, &it)) {
                while (ferret_map_iter_next(m, &it, &kp, &vp) && n < 100000) { printf(" %d:%lld", *(int32_t*)kp, (long long)*(int64_t*)vp); n++; }
            }
            printf("\n");
        }
    }
    if (m) ferret_map_destroy(m);
    return 0;
}
'''

def build_map(repo, outdir):
    os.makedirs(outdir, exist_ok=True)
    src = os.path.join(outdir, "bounded_map_driver.c")
    exe = os.path.join(outdir, "bounded_map_driver")
    open(src, "w").write(MAP_DRIVER)
    r = subprocess.run(["cc", "-std=gnu99", "-O1", "-g", "-w", "-fsanitize=address,undefined", "-fno-sanitize-recover=all", "-I", os.path.join(repo, "runtime/core"),
                        "-I", os.path.join(repo, "runtime/libs"), src, "-o", exe, "-lm"], capture_output=True, text=True)
    if r.returncode != 0:
        raise RuntimeError("bounded map driver does not build: " + r.stderr[-600:])
    return exe

def check_map(exe_unused, seed=1, repo=None, outdir=None):
    """ferret_map_* against a Python dict: after EVERY operation the whole observable state is compared
    (size, has/get/get_optional of every key ever used and of absent keys, one full iteration).
    Built with AddressSanitizer/UBSan, so a memory error is a failure as well."""
    exe = build_map(repo, outdir)
    rnd = random.Random(seed)
    scripts = []
    # (1) small scope, exhaustive: every sequence of <= 5 sets over 3 keys x 2 values, under a 4-bucket-collision hash
    import itertools
    alphabet = [(k, v) for k in (0, 4, 5) for v in (10, 20)]
    for L in range(0, 6):
        for seq in itertools.product(alphabet, repeat=L):
            scripts.append((1, list(seq)))
    # (2) growth across four resize thresholds (12, 24, 48, 96 entries), one set at a time, several key orders and hashes
    for hk in (0, 1, 2, 3):
        n = 130 if hk != 3 else 40
        orders = [list(range(n)), list(range(n - 1, -1, -1)), [i * 16 for i in range(n)], [i * 12 + 5 for i in range(n)],
                  [-(i * 7) - 1 for i in range(n)], rnd.sample(range(-10**6, 10**6), n)]
        for keys in orders:
            seq = []
            for i, k in enumerate(keys):
                seq.append((k, i * 3 + 1))
                if i % 5 == 4:
                    seq.append((keys[rnd.randrange(0, i + 1)], -i))      # overwrite an existing key
                if i in (11, 12, 23, 24, 47, 48, 95, 96):
                    seq.append((k, 1000 + i))                             # re-set the key that crossed a threshold
            scripts.append((hk, seq))
    lines, expect, where = [], [], []
    ncases = 0
    for hk, seq in scripts:
        lines.append("new %d" % hk); expect.append("new 1"); where.append((hk, []))
        ref = {}
        hist = []
        for (k, v) in seq:
            hist = hist + [(k, v)]
            ref[k] = v
            lines.append("set %d %d" % (k, v)); expect.append("set 1"); where.append((hk, hist))
            lines.append("size"); expect.append("size %d" % len(ref)); where.append((hk, hist))
            lines.append("iter"); expect.append(("iter", dict(ref))); where.append((hk, hist))
            probe = [k, k + 1, k - 16] + ([hist[0][0]] if hist else [])
            if len(hist) % 8 == 0 or len(seq) <= 6:
                probe = list(ref.keys()) + probe
            for q in probe:
                lines.append("has %d" % q); expect.append("has %d" % (q in ref)); where.append((hk, hist))
                lines.append("get %d" % q); expect.append("get %s" % (ref[q] if q in ref else "none")); where.append((hk, hist))
                lines.append("opt %d" % q); expect.append("opt %s" % (ref[q] if q in ref else "none")); where.append((hk, hist))
            ncases += 1
    r = subprocess.run([exe], input="\n".join(lines) + "\n", capture_output=True, text=True, timeout=900)
    out = r.stdout.split("\n")
    for i, (cmd, want) in enumerate(zip(lines, expect)):
        got = out[i] if i < len(out) else "(no output: the driver stopped — %s)" % r.stderr[-300:].replace("\n", " ")
        ok = (got == want) if isinstance(want, str) else None
        if ok is None:
            items = got.split()[1:] if got.startswith("iter") else None
            if items is None:
                ok = False
            else:
                seen = {}
                dup = False
                for it in items:
                    kk, vv = it.split(":")
                    if int(kk) in seen:
                        dup = True
                    seen[int(kk)] = int(vv)
                ok = (not dup) and seen == want[1]
        if not ok:
            hk, hist = where[i]
            return ncases, {"hash": ["fnv1a (ferret_map_new_i32)", "key & 3", "identity", "constant"][hk], "operations": " ".join("set(%d,%d)" % kv for kv in hist[-16:]),
                            "operations_before": max(0, len(hist) - 16), "then": cmd, "got": got[:200], "want": str(want)[:200]}, ""
    if r.returncode != 0:
        return ncases, {"driver": "exit %d" % r.returncode, "stderr": r.stderr[-400:]}, ""
    return ncases, None, ("every sequence of <= 5 set operations over 3 keys x 2 values under a colliding hash; growth one set at a time to 130 keys across the resize thresholds "
                          "12/24/48/96 in 6 key orders x 4 hash functions (fnv1a, key&3, identity, constant) with overwrites; after every operation size, a full iteration, and "
                          "has/get/get_optional of present and absent keys are compared with a Python dict; built with ASan+UBSan")

def _big(f):
    return lambda repo, outdir: f(build(repo, outdir))

FAMILIES = {"divmod": _big(check_divmod), "fromstr": _big(check_fromstr), "tostr": _big(check_tostr),
            "map": lambda repo, outdir: check_map(None, repo=repo, outdir=outdir)}

if __name__ == "__main__":
    repo = sys.argv[1] if len(sys.argv) > 1 else "/repo"
    for k, f in FAMILIES.items():
        if len(sys.argv) > 2 and k != sys.argv[2]:
            continue
        print(k, f(repo, "/tmp/bounded_try"))
