#!/opt/veriftools/pyvenv/bin/python
"""llvc: contract checker for Ferret's C runtime.

The real .c file is compiled on every run with clang -O2 (no vectorisation/unrolling) to textual
LLVM IR; the function under contract is executed symbolically (bit-precise: integers are
bit-vectors, memory is a set of typed regions), internal calls are inlined, and every contract
clause / safety condition becomes an SMT query (z3 in-process; the SMT-LIB text is also written
out so that the other solvers can re-check it).

Contract file (runtime/core/<name>.contracts), one block per function:
    func <c-name> : <ret> <- <type> <name>, ...
    requires <python expr>
    ensures  <python expr>            (names: parameters, `result`, helper functions below)
    bounded  <text>                   (marks a bounded stand-in; reported, not counted as proved)
Types: i128 u128 i256 u256 (by value), `T*` (pointer to such a value, may alias), `out T*`,
       bool, int (i32), i64, u64.
"""
import json, os, re, subprocess, sys, time, itertools
import z3

# ------------------------------------------------------------------ IR parsing

class Fn:
    def __init__(self, name, ret, params):
        self.name, self.ret, self.params = name, ret, params
        self.blocks = {}
        self.order = []

TYPEDEFS = {}

def split_top(s, sep=","):
    out, depth, cur = [], 0, ""
    for ch in s:
        if ch in "([{<":
            depth += 1
        elif ch in ")]}>":
            depth -= 1
        if ch == sep and depth == 0:
            out.append(cur.strip()); cur = ""
        else:
            cur += ch
    if cur.strip():
        out.append(cur.strip())
    return out

def parse_ll(text):
    fns = {}
    cur = None
    label = None
    for line in text.split("\n"):
        m = re.match(r"^(%[\w.]+) = type (.*)$", line)
        if m:
            TYPEDEFS[m.group(1)] = m.group(2).strip()
            continue
        m = re.match(r"^define .*? ((?:\{[^}]*\}|[\w%.*]+(?: \([^)]*\))?)\*?) @([\w.]+)\((.*)\) (?:local_unnamed_addr )?.*\{$", line)
        if m and line.startswith("define"):
            # find return type and params more robustly
            head = line[len("define"):]
            at = head.index(" @")
            pre = head[:at].strip()
            # strip linkage / attrs words
            toks = pre.split()
            # return type is the tail that parses as a type
            rett = toks[-1]
            if rett.endswith("}"):
                k = len(toks) - 1
                while "{" not in toks[k]:
                    k -= 1
                rett = " ".join(toks[k:])
            name = m.group(2)
            # params: between first '(' after @name and matching ')'
            start = head.index("(", at)
            depth = 0
            for i in range(start, len(head)):
                if head[i] == "(":
                    depth += 1
                elif head[i] == ")":
                    depth -= 1
                    if depth == 0:
                        end = i
                        break
            params = []
            for p in split_top(head[start + 1:end]):
                if p == "...":
                    continue
                pm = re.match(r"^(.*?)\s+(%[\w.]+)$", p)
                if not pm:
                    params.append((p, None, p))
                    continue
                full = pm.group(1)
                ty = re.match(r"^((?:\{[^}]*\}|%?[\w.]+|\[[^\]]*\])\**)", full).group(1)
                params.append((ty, pm.group(2), full))
            cur = Fn(name, rett, params)
            fns[name] = cur
            label = "entry"
            cur.blocks[label] = []
            cur.order.append(label)
            continue
        if cur is None:
            continue
        if line.startswith("}"):
            cur = None
            continue
        m = re.match(r"^([\w.]+):", line)
        if m:
            label = m.group(1)
            cur.blocks[label] = []
            cur.order.append(label)
            continue
        s = line.strip()
        if not s or s.startswith(";"):
            continue
        s = re.sub(r",?\s*!\w+(\.\w+)* ![\w.]+", "", s)
        s = re.sub(r", align \d+", "", s)
        s = re.sub(r"\s*;.*$", "", s) if "; preds" in s else s
        cur.blocks[label].append(s)
    return fns

def type_size(t):
    t = t.strip()
    if t.endswith("*"):
        return 8
    m = re.match(r"^i(\d+)$", t)
    if m:
        return (int(m.group(1)) + 7) // 8
    if t == "double":
        return 8
    if t == "float":
        return 4
    if t == "fp128":
        return 16
    m = re.match(r"^\[(\d+) x (.*)\]$", t)
    if m:
        return int(m.group(1)) * type_size(m.group(2))
    if t.startswith("%"):
        return type_size(TYPEDEFS[t])
    if t.startswith("{"):
        off = 0
        for f in split_top(t.strip()[1:-1]):
            a = type_align(f)
            off = (off + a - 1) // a * a
            off += type_size(f)
        a = type_align(t)
        return (off + a - 1) // a * a
    raise Unsupported("size of type " + t)

def type_align(t):
    t = t.strip()
    if t.endswith("*"):
        return 8
    m = re.match(r"^i(\d+)$", t)
    if m:
        return min(8, max(1, (int(m.group(1)) + 7) // 8)) if int(m.group(1)) <= 64 else 16
    if t in ("double",):
        return 8
    if t == "float":
        return 4
    if t == "fp128":
        return 16
    m = re.match(r"^\[(\d+) x (.*)\]$", t)
    if m:
        return type_align(m.group(2))
    if t.startswith("%"):
        return type_align(TYPEDEFS[t])
    if t.startswith("{"):
        return max([type_align(f) for f in split_top(t.strip()[1:-1])] or [1])
    raise Unsupported("align of type " + t)

def struct_fields(t):
    t = t.strip()
    if t.startswith("%"):
        t = TYPEDEFS[t]
    assert t.startswith("{"), t
    return split_top(t.strip()[1:-1])

def field_offset(t, idx):
    off = 0
    fs = struct_fields(t)
    for i, f in enumerate(fs):
        a = type_align(f)
        off = (off + a - 1) // a * a
        if i == idx:
            return off, f
        off += type_size(f)
    raise Unsupported("field index")

# ------------------------------------------------------------------ symbolic execution

class Unsupported(Exception):
    pass

class Region:
    _n = 0
    def __init__(self, name, size, cells=None, writable=True, blob=None):
        Region._n += 1
        self.id = Region._n
        self.name, self.size, self.writable = name, size, writable
        self.cells = dict(cells or {})   # offset -> (nbytes, bitvec | Ptr)
        self.blob = blob                 # z3 Array(BV64 -> BV8) for regions of symbolic size
        self.freed = False
    def clone(self):
        r = Region.__new__(Region)
        r.id, r.name, r.size, r.writable = self.id, self.name, self.size, self.writable
        r.cells = dict(self.cells)
        r.blob, r.freed = self.blob, self.freed
        return r

class Ptr:
    def __init__(self, rid, off):
        self.rid, self.off = rid, off      # off: python int or z3 BV64
    def __repr__(self):
        return "Ptr(%s,%s)" % (self.rid, self.off)

NULL = Ptr(0, 0)

def bv(v, w):
    return z3.BitVecVal(v, w)

class State:
    def __init__(self):
        self.regions = {}
        self.pc = []
    def clone(self):
        s = State()
        s.regions = {k: r.clone() for k, r in self.regions.items()}
        s.pc = list(self.pc)
        return s

class Engine:
    def __init__(self, fns, timeout_ms=20000):
        self.fns = fns
        self.obls = []         # dicts
        self.timeout_ms = timeout_ms
        self.paths = 0
        self.fresh = 0
        self.notes = set()
        self.solver_secs = 0.0
        self.max_paths = 4000
        self.assumed = {}

    def freshbv(self, name, w):
        self.fresh += 1
        return z3.BitVec("%s!%d" % (name, self.fresh), w)

    # ---- solver helpers
    def check(self, pc, extra=None, timeout=None):
        s = z3.Solver()
        s.set("timeout", timeout or self.timeout_ms)
        for p in pc:
            s.add(p)
        if extra is not None:
            s.add(extra)
        t0 = time.time()
        r = s.check()
        self.solver_secs += time.time() - t0
        return r, s

    def feasible(self, pc, cond):
        c = z3.simplify(cond)
        if z3.is_true(c):
            return True
        if z3.is_false(c):
            return False
        r, _ = self.check(pc, c, timeout=3000)
        return r != z3.unsat

    def oblige(self, st, name, kind, goal, where=""):
        g = z3.simplify(goal) if not isinstance(goal, bool) else z3.BoolVal(goal)
        self.obls.append({"name": name, "kind": kind, "pc": list(st.pc), "goal": g, "where": where})
        if not z3.is_true(g):
            st.pc.append(g)

    # ---- memory
    def load(self, st, p, nbytes, fname):
        if p.rid == 0:
            self.oblige(st, fname + ".safety:null-deref", "safety", False)
            raise PathEnd()
        reg = st.regions[p.rid]
        if reg.freed:
            self.oblige(st, fname + ".safety:use-after-free", "safety", False, reg.name)
            raise PathEnd()
        if reg.blob is not None:
            offb = self.offbv(p)
            self.oblige(st, fname + ".safety:in-bounds", "safety", z3.And(z3.ULE(offb, offb + nbytes), z3.ULE(offb + nbytes, self.sizebv(reg))), "load " + reg.name)
            bs = [z3.Select(reg.blob, offb + k) for k in range(nbytes)]
            bs.reverse()
            return z3.Concat(*bs) if nbytes > 1 else bs[0]
        w = nbytes * 8
        off = p.off
        if z3.is_expr(off):
            off = z3.simplify(off)
            if z3.is_bv_value(off):
                off = off.as_signed_long()
        if isinstance(off, int):
            self.oblige(st, fname + ".safety:in-bounds", "safety", 0 <= off and off + nbytes <= reg.size, "load %s+%d" % (reg.name, off))
            return self.read_cell(st, reg, off, nbytes)
        # symbolic offset: ite over candidate aligned offsets
        self.oblige(st, fname + ".safety:in-bounds", "safety",
                    z3.And(z3.ULE(off, bv(reg.size - nbytes, 64)), z3.URem(off, bv(nbytes, 64)) == 0), "load %s+sym" % reg.name)
        val = None
        for o in range(reg.size - nbytes, -1, -nbytes):
            c = self.read_cell(st, reg, o, nbytes)
            val = c if val is None else z3.If(off == o, c, val)
        return val

    def read_cell(self, st, reg, off, nbytes):
        c = reg.cells.get(off)
        if c and c[0] == nbytes:
            return c[1]
        # compose from smaller cells or extract from a bigger one
        for o, (n, v) in reg.cells.items():
            if o <= off and off + nbytes <= o + n:
                lo = (off - o) * 8
                return z3.Extract(lo + nbytes * 8 - 1, lo, v)
        parts = []
        o = off
        while o < off + nbytes:
            c = reg.cells.get(o)
            if not c or o + c[0] > off + nbytes:
                # uninitialised / unknown bytes: fresh (undef)
                v = self.freshbv("undef_%s_%d" % (reg.name, o), 8)
                reg.cells[o] = (1, v)
                c = (1, v)
            parts.append(c[1])
            o += c[0]
        parts.reverse()
        return z3.Concat(*parts) if len(parts) > 1 else parts[0]

    def store(self, st, p, nbytes, val, fname):
        if p.rid == 0:
            self.oblige(st, fname + ".safety:null-deref", "safety", False)
            raise PathEnd()
        reg = st.regions[p.rid]
        if reg.freed:
            self.oblige(st, fname + ".safety:use-after-free", "safety", False, reg.name)
            raise PathEnd()
        if reg.blob is not None:
            offb = self.offbv(p)
            self.oblige(st, fname + ".safety:in-bounds", "safety", z3.And(z3.ULE(offb, offb + nbytes), z3.ULE(offb + nbytes, self.sizebv(reg))), "store " + reg.name)
            for k in range(nbytes):
                reg.blob = z3.Store(reg.blob, offb + k, z3.Extract(8 * k + 7, 8 * k, val))
            return
        off = p.off
        if z3.is_expr(off):
            off = z3.simplify(off)
            if z3.is_bv_value(off):
                off = off.as_signed_long()
        if isinstance(off, int):
            self.oblige(st, fname + ".safety:in-bounds", "safety", 0 <= off and off + nbytes <= reg.size, "store %s+%d" % (reg.name, off))
            self.write_cell(reg, off, nbytes, val)
            return
        self.oblige(st, fname + ".safety:in-bounds", "safety",
                    z3.And(z3.ULE(off, bv(reg.size - nbytes, 64)), z3.URem(off, bv(nbytes, 64)) == 0), "store %s+sym" % reg.name)
        for o in range(0, reg.size - nbytes + 1, nbytes):
            old = self.read_cell(st, reg, o, nbytes)
            self.write_cell(reg, o, nbytes, z3.If(off == o, val, old))

    def write_cell(self, reg, off, nbytes, val):
        # remove overlapping cells
        for o in list(reg.cells):
            n = reg.cells[o][0]
            if o < off + nbytes and off < o + n:
                if o >= off and o + n <= off + nbytes:
                    del reg.cells[o]
                else:
                    # split the old cell into bytes
                    v = reg.cells[o][1]
                    del reg.cells[o]
                    if isinstance(v, Ptr):
                        continue
                    for k in range(n):
                        if not (off <= o + k < off + nbytes):
                            reg.cells[o + k] = (1, z3.Extract(k * 8 + 7, k * 8, v))
        reg.cells[off] = (nbytes, val)

    # ---- values
    def operand(self, env, ty, tok):
        tok = tok.strip()
        if tok.startswith("%") or tok.startswith("@"):
            if tok not in env:
                raise Unsupported("unbound value " + tok)
            return env[tok]
        ty = ty.strip()
        if ty.endswith("*"):
            if tok == "null":
                return NULL
            raise Unsupported("pointer constant " + tok)
        m = re.match(r"^i(\d+)$", ty)
        if m:
            w = int(m.group(1))
            if tok == "true":
                return bv(1, w)
            if tok == "false":
                return bv(0, w)
            if tok in ("undef", "poison"):
                return self.freshbv("undef", w)
            return bv(int(tok), w)
        if tok in ("undef", "poison", "zeroinitializer"):
            return self.zero_of(ty, tok != "zeroinitializer")
        raise Unsupported("constant %s of type %s" % (tok, ty))

    def zero_of(self, ty, undef=False):
        ty = ty.strip()
        m = re.match(r"^i(\d+)$", ty)
        if m:
            return self.freshbv("undef", int(m.group(1))) if undef else bv(0, int(m.group(1)))
        if ty.startswith("{"):
            return [self.zero_of(f, undef) for f in split_top(ty[1:-1])]
        if ty.startswith("%"):
            return self.zero_of(TYPEDEFS[ty], undef)
        raise Unsupported("zero of " + ty)

    # ---- running
    def run_function(self, fn, args, st, depth, on_return, fname_top):
        """Executes fn with args in state st; calls on_return(st, retval) per path."""
        if depth > 12:
            raise Unsupported("call depth")
        env = {}
        for (ty, name, _), a in zip(fn.params, args):
            if name:
                env[name] = a
        work = [(st, env, fn.order[0], None, 0)]
        while work:
            st, env, label, prev, idx = work.pop()
            try:
                self.run_block(fn, st, env, label, prev, idx, work, depth, on_return, fname_top)
            except PathEnd:
                pass

    def run_block(self, fn, st, env, label, prev, idx, work, depth, on_return, ftop):
        steps = 0
        while True:
            instrs = fn.blocks[label]
            jumped = False
            i = idx
            while i < len(instrs):
                ins = instrs[i]
                steps += 1
                if steps > 200000:
                    raise Unsupported("step cap in " + fn.name)
                r = self.exec_instr(fn, st, env, ins, label, prev, depth, ftop)
                if r is None:
                    i += 1
                    continue
                kind = r[0]
                if kind == "jump":
                    prev, label, idx = label, r[1], 0
                    jumped = True
                    break
                if kind == "fork":
                    # r[1]: list of (cond, target)
                    alts = []
                    for cond, target in r[1]:
                        if self.feasible(st.pc, cond):
                            alts.append((cond, target))
                    if not alts:
                        raise PathEnd()
                    for cond, target in alts[1:]:
                        s2 = st.clone()
                        s2.pc.append(cond)
                        work.append((s2, dict(env), target, label, 0))
                        self.paths += 1
                        if self.paths > self.max_paths:
                            raise Unsupported("path cap in " + ftop)
                    st.pc.append(alts[0][0])
                    prev, label, idx = label, alts[0][1], 0
                    jumped = True
                    break
                if kind == "split":
                    # r[1]: list of (cond or None, {dest: value}, state-mutator or None)
                    alts = [a for a in r[1] if a[0] is None or self.feasible(st.pc, a[0])]
                    if not alts:
                        raise PathEnd()
                    for cond, binds, mut in alts[1:]:
                        s2 = st.clone()
                        if cond is not None:
                            s2.pc.append(cond)
                        e2 = dict(env)
                        if mut:
                            mut(s2, e2)
                        e2.update(binds)
                        work.append((s2, e2, label, prev, i + 1))
                        self.paths += 1
                    cond, binds, mut = alts[0]
                    if cond is not None:
                        st.pc.append(cond)
                    if mut:
                        mut(st, env)
                    env.update(binds)
                    i += 1
                    continue
                if kind == "ret":
                    on_return(st, r[1])
                    return
                if kind == "call":
                    # inline call: r = ("call", callee, args, dest)
                    _, callee, cargs, dest = r
                    cont_label, cont_prev, cont_idx = label, prev, i + 1
                    def k(st2, rv, env=env, dest=dest, cont=(cont_label, cont_prev, cont_idx)):
                        e2 = dict(env)
                        if dest:
                            e2[dest] = rv
                        work.append((st2, e2, cont[0], cont[1], cont[2]))
                    self.run_function(callee, cargs, st, depth + 1, k, ftop)
                    return
                raise Unsupported("bad step result")
            if not jumped:
                raise Unsupported("fell off block %s in %s" % (label, fn.name))

    def exec_instr(self, fn, st, env, ins, label, prev, depth, ftop):
        dest = None
        m = re.match(r"^(%[\w.]+) = (.*)$", ins)
        body = ins
        if m:
            dest, body = m.group(1), m.group(2)
        body = re.sub(r"^(tail |musttail |notail )", "", body)
        op = body.split()[0]
        # ---- terminators
        if op == "br":
            m = re.match(r"^br label %([\w.]+)$", body)
            if m:
                return ("jump", m.group(1))
            m = re.match(r"^br i1 (\S+), label %([\w.]+), label %([\w.]+)$", body)
            c = self.operand(env, "i1", m.group(1))
            c1 = z3.simplify(c == 1)
            if z3.is_true(c1):
                return ("jump", m.group(2))
            if z3.is_false(c1):
                return ("jump", m.group(3))
            return ("fork", [(c == 1, m.group(2)), (c == 0, m.group(3))])
        if op == "ret":
            if body == "ret void":
                return ("ret", None)
            m = re.match(r"^ret (.*) (\S+)$", body)
            return ("ret", self.operand(env, m.group(1), m.group(2)))
        if op == "switch":
            m = re.match(r"^switch (i\d+) (\S+), label %([\w.]+) \[(.*)\]$", body)
            ty, v, dflt, cases = m.group(1), self.operand(env, m.group(1), m.group(2)), m.group(3), m.group(4)
            alts, none = [], []
            for cm in re.finditer(r"(i\d+) (-?\d+), label %([\w.]+)", cases):
                k = bv(int(cm.group(2)), int(ty[1:]))
                alts.append((v == k, cm.group(3)))
                none.append(v != k)
            alts.append((z3.And(*none) if none else z3.BoolVal(True), dflt))
            return ("fork", alts)
        if op == "unreachable":
            self.oblige(st, ftop + ".safety:unreachable", "safety", False, fn.name)
            raise PathEnd()
        # ---- phi
        if op == "phi":
            m = re.match(r"^phi (.*?) (\[.*)$", body)
            ty = m.group(1)
            for pm in re.finditer(r"\[ ([^,]+), %([\w.]+) \]", m.group(2)):
                lbl = pm.group(2)
                if lbl == prev or (prev == "entry" and lbl == self.entry_alias(fn)):
                    env[dest] = self.operand(env, ty, pm.group(1))
                    return None
            raise Unsupported("phi without matching pred %s in %s (%s)" % (prev, fn.name, ins))
        # ---- arithmetic
        if op in ("add", "sub", "mul", "and", "or", "xor", "shl", "lshr", "ashr", "udiv", "urem", "sdiv", "srem"):
            m = re.match(r"^\w+ ((?:nuw |nsw |exact )*)(i\d+) (\S+), (\S+)$", body)
            flags, ty = m.group(1), m.group(2)
            a, b = self.operand(env, ty, m.group(3)), self.operand(env, ty, m.group(4))
            w = int(ty[1:])
            if op == "add":
                r = a + b
                if "nsw" in flags and not (z3.is_bv_value(z3.simplify(a)) and z3.is_bv_value(z3.simplify(b))):
                    r = z3.If(z3.And(z3.BVAddNoOverflow(a, b, True), z3.BVAddNoUnderflow(a, b)), r, self.freshbv("poison", w))
            elif op == "sub":
                r = a - b
                if "nsw" in flags and not (z3.is_bv_value(z3.simplify(a)) and z3.is_bv_value(z3.simplify(b))):
                    r = z3.If(z3.And(z3.BVSubNoOverflow(a, b), z3.BVSubNoUnderflow(a, b, True)), r, self.freshbv("poison", w))
            elif op == "mul" and OPAQUE_MUL[0] and w == 64 and not (z3.is_bv_value(z3.simplify(a)) and z3.is_bv_value(z3.simplify(b))):
                r = umul(a, b)
            elif op == "mul":
                r = a * b
                if "nsw" in flags and not (z3.is_bv_value(z3.simplify(a)) and z3.is_bv_value(z3.simplify(b))):
                    r = z3.If(z3.And(z3.BVMulNoOverflow(a, b, True), z3.BVMulNoUnderflow(a, b)), r, self.freshbv("poison", w))
            elif op == "and":
                r = a & b
            elif op == "or":
                r = a | b
            elif op == "xor":
                r = a ^ b
            elif op in ("shl", "lshr", "ashr"):
                r = a << b if op == "shl" else (z3.LShR(a, b) if op == "lshr" else a >> b)
                if not z3.is_true(z3.simplify(z3.ULT(b, bv(w, w)))):
                    # over-wide shifts yield poison (an arbitrary value), not undefined behaviour
                    r = z3.If(z3.ULT(b, bv(w, w)), r, self.freshbv("poison", w))
            else:
                self.oblige(st, ftop + ".safety:div-by-zero", "safety", b != 0, fn.name)
                if op == "udiv":
                    r = z3.UDiv(a, b)
                elif op == "urem":
                    r = z3.URem(a, b)
                elif op == "sdiv":
                    self.oblige(st, ftop + ".safety:signed-overflow", "safety", z3.Not(z3.And(a == bv(1 << (w - 1), w), b == bv(-1, w))), fn.name)
                    r = a / b
                else:
                    r = z3.SRem(a, b)
            env[dest] = z3.simplify(r)
            return None
        if op == "icmp":
            m = re.match(r"^icmp (\w+) (.+?) (\S+), (\S+)$", body)
            pred, ty = m.group(1), m.group(2)
            a, b = self.operand(env, ty, m.group(3)), self.operand(env, ty, m.group(4))
            if isinstance(a, Ptr) or isinstance(b, Ptr):
                same = (a.rid == b.rid)
                if pred == "eq":
                    c = z3.BoolVal(same and self.off_eq(a, b)) if not (z3.is_expr(a.off) or z3.is_expr(b.off)) else (z3.BoolVal(False) if not same else self.offbv(a) == self.offbv(b))
                elif pred == "ne":
                    c = z3.BoolVal(not (same and self.off_eq(a, b))) if not (z3.is_expr(a.off) or z3.is_expr(b.off)) else (z3.BoolVal(True) if not same else self.offbv(a) != self.offbv(b))
                else:
                    raise Unsupported("pointer ordering compare")
            else:
                c = {"eq": lambda: a == b, "ne": lambda: a != b, "ult": lambda: z3.ULT(a, b), "ule": lambda: z3.ULE(a, b),
                     "ugt": lambda: z3.UGT(a, b), "uge": lambda: z3.UGE(a, b), "slt": lambda: a < b, "sle": lambda: a <= b,
                     "sgt": lambda: a > b, "sge": lambda: a >= b}[pred]()
            env[dest] = z3.simplify(z3.If(c, bv(1, 1), bv(0, 1)))
            return None
        if op in ("zext", "sext", "trunc"):
            m = re.match(r"^\w+ (i\d+) (\S+) to (i\d+)$", body)
            a = self.operand(env, m.group(1), m.group(2))
            w0, w1 = int(m.group(1)[1:]), int(m.group(3)[1:])
            if op == "zext":
                r = z3.ZeroExt(w1 - w0, a)
            elif op == "sext":
                r = z3.SignExt(w1 - w0, a)
                if OPAQUE_MUL[0] and not z3.is_bv_value(z3.simplify(a)):
                    rr, _ = self.check(st.pc, a < 0, timeout=2000)
                    if rr == z3.unsat:
                        r = z3.ZeroExt(w1 - w0, a)
            else:
                r = z3.Extract(w1 - 1, 0, a)
            env[dest] = z3.simplify(r)
            return None
        if op == "select":
            m = re.match(r"^select i1 (\S+), (.+?) (\S+), (.+?) (\S+)$", body)
            c = self.operand(env, "i1", m.group(1))
            a, b = self.operand(env, m.group(2), m.group(3)), self.operand(env, m.group(4), m.group(5))
            if isinstance(a, Ptr) or isinstance(b, Ptr):
                c1 = z3.simplify(c == 1)
                if z3.is_true(c1):
                    env[dest] = a
                elif z3.is_false(c1):
                    env[dest] = b
                elif a.rid == b.rid:
                    env[dest] = Ptr(a.rid, z3.If(c == 1, self.offbv(a), self.offbv(b)))
                else:
                    raise Unsupported("select between pointers to different regions")
                return None
            env[dest] = z3.simplify(z3.If(c == 1, a, b))
            return None
        if op == "freeze":
            m = re.match(r"^freeze (.+?) (\S+)$", body)
            env[dest] = self.operand(env, m.group(1), m.group(2))
            return None
        # ---- memory
        if op == "alloca":
            m = re.match(r"^alloca (.+?)(?:, (i\d+) (\S+))?$", body)
            size = type_size(m.group(1))
            if m.group(2):
                n = self.operand(env, m.group(2), m.group(3))
                n = z3.simplify(n)
                if not z3.is_bv_value(n):
                    raise Unsupported("variable-size alloca")
                size *= n.as_long()
            reg = Region("%s%s" % (fn.name, dest), size)
            st.regions[reg.id] = reg
            env[dest] = Ptr(reg.id, 0)
            return None
        if op == "getelementptr":
            m = re.match(r"^getelementptr (?:inbounds )?(.+?), (.+?)\* (\S+?)((?:, i\d+ \S+)+)$", body)
            base_ty = m.group(1)
            p = self.operand(env, m.group(2) + "*", m.group(3))
            idxs = re.findall(r", (i\d+) ([^,\s]+)", m.group(4))
            off = p.off
            ty = base_ty
            first = True
            for ity, itok in idxs:
                iv = self.operand(env, ity, itok)
                iv = z3.simplify(iv)
                if first:
                    step = type_size(ty)
                    first = False
                    nxt = ty
                else:
                    t = ty.strip()
                    if t.startswith("%") or t.startswith("{"):
                        if not z3.is_bv_value(iv):
                            raise Unsupported("symbolic struct index")
                        o, nxt = field_offset(t, iv.as_long())
                        off = self.off_add(off, o)
                        ty = nxt
                        continue
                    am = re.match(r"^\[(\d+) x (.*)\]$", t)
                    if not am:
                        raise Unsupported("gep into " + t)
                    nxt = am.group(2)
                    step = type_size(nxt)
                if z3.is_bv_value(iv):
                    off = self.off_add(off, iv.as_signed_long() * step)
                else:
                    w = iv.size()
                    iv64 = z3.SignExt(64 - w, iv) if w < 64 else iv
                    off = self.off_add(off, iv64 * bv(step, 64))
                ty = nxt
            env[dest] = Ptr(p.rid, off)
            return None
        if op == "bitcast":
            m = re.match(r"^bitcast (.+?) (\S+) to (.+)$", body)
            env[dest] = self.operand(env, m.group(1), m.group(2))
            return None
        if op == "load":
            m = re.match(r"^load (?:volatile )?(.+?), (.+?)\* (\S+)$", body)
            ty = m.group(1)
            p = self.operand(env, m.group(2) + "*", m.group(3))
            if ty.endswith("*"):
                reg = st.regions.get(p.rid)
                if reg is None or reg.blob is not None or not isinstance(p.off, int):
                    raise Unsupported("load of pointer from untyped memory in " + fn.name)
                if reg.freed:
                    self.oblige(st, ftop + ".safety:use-after-free", "safety", False, reg.name)
                    raise PathEnd()
                self.oblige(st, ftop + ".safety:in-bounds", "safety", 0 <= p.off and p.off + 8 <= reg.size, "load ptr " + reg.name)
                c = reg.cells.get(p.off)
                if not c or not isinstance(c[1], Ptr):
                    raise Unsupported("load of an unknown pointer in " + fn.name)
                env[dest] = c[1]
                return None
            env[dest] = self.load(st, p, type_size(ty), ftop)
            if ty == "i1":
                env[dest] = z3.Extract(0, 0, env[dest])
            return None
        if op == "store":
            m = re.match(r"^store (?:volatile )?(.+?) (\S+), (.+?)\* (\S+)$", body)
            ty = m.group(1)
            if ty.endswith("*"):
                v = self.operand(env, ty, m.group(2))
                p = self.operand(env, m.group(3) + "*", m.group(4))
                if p.rid == 0:
                    self.oblige(st, ftop + ".safety:null-deref", "safety", False)
                    raise PathEnd()
                reg = st.regions[p.rid]
                if reg.blob is not None or not isinstance(p.off, int):
                    raise Unsupported("store of pointer to untyped memory in " + fn.name)
                if reg.freed:
                    self.oblige(st, ftop + ".safety:use-after-free", "safety", False, reg.name)
                    raise PathEnd()
                self.oblige(st, ftop + ".safety:in-bounds", "safety", 0 <= p.off and p.off + 8 <= reg.size, "store ptr " + reg.name)
                self.write_cell(reg, p.off, 8, v)
                return None
            v = self.operand(env, ty, m.group(2))
            p = self.operand(env, m.group(3) + "*", m.group(4))
            if ty == "i1":
                v = z3.ZeroExt(7, v)
            self.store(st, p, type_size(ty), v, ftop)
            return None
        if op == "insertvalue":
            m = re.match(r"^insertvalue (\{.*?\}|%[\w.]+) (\S+), (.+?) (\S+), (\d+)$", body)
            agg = self.operand(env, m.group(1), m.group(2))
            agg = list(agg)
            agg[int(m.group(5))] = self.operand(env, m.group(3), m.group(4))
            env[dest] = agg
            return None
        if op == "extractvalue":
            m = re.match(r"^extractvalue (\{.*?\}|%[\w.]+) (\S+), (\d+)$", body)
            env[dest] = self.operand(env, m.group(1), m.group(2))[int(m.group(3))]
            return None
        if op == "call":
            return self.exec_call(fn, st, env, body, dest, depth, ftop)
        raise Unsupported("instruction: " + ins)

    def entry_alias(self, fn):
        # the implicit entry block's label is its numeric name (number of params)
        n = 0
        for _, name, _ in fn.params:
            if name and re.match(r"^%\d+$", name):
                n += 1
        return str(n)

    def off_add(self, off, d):
        if isinstance(off, int) and isinstance(d, int):
            return off + d
        a = bv(off, 64) if isinstance(off, int) else off
        b = bv(d, 64) if isinstance(d, int) else d
        return z3.simplify(a + b)

    def off_eq(self, a, b):
        return a.off == b.off

    def sizebv(self, reg):
        return bv(reg.size, 64) if isinstance(reg.size, int) else reg.size

    def offbv(self, p):
        return bv(p.off, 64) if isinstance(p.off, int) else p.off

    def exec_call(self, fn, st, env, body, dest, depth, ftop):
        m = re.match(r"^call (.*?)@([\w.]+)\((.*)\)(?: #\d+)?$", body)
        if not m:
            raise Unsupported("indirect call: " + body)
        callee, argstr = m.group(2), m.group(3)
        rett = m.group(1).strip()
        args = []
        for a in split_top(argstr):
            am = re.match(r"^(.*?)\s+(\S+)$", a)
            full, tok = am.group(1), am.group(2)
            ty = re.match(r"^((?:\{[^}]*\}|%?[\w.]+|\[[^\]]*\])\**)", full).group(1)
            args.append((ty, tok))
        if callee.startswith("llvm.lifetime") or callee.startswith("llvm.experimental.noalias") or callee.startswith("llvm.assume") or callee.startswith("llvm.dbg"):
            return None
        vals = [self.operand(env, ty, tok) for ty, tok in args]
        if callee.startswith("llvm.memset"):
            p, v, n = vals[0], vals[1], z3.simplify(vals[2])
            if not z3.is_bv_value(z3.simplify(v)):
                raise Unsupported("memset with symbolic value")
            if not z3.is_bv_value(n) or not isinstance(p.off, int):
                # symbolic extent: every 8-byte cell of the region is conditionally overwritten
                byte = z3.simplify(v).as_long()
                reg = st.regions[p.rid]
                offb = self.offbv(p)
                pat = bv(int.from_bytes(bytes([byte]) * 8, "little"), 64)
                self.oblige(st, ftop + ".safety:in-bounds", "safety",
                            z3.And(z3.URem(offb, bv(8, 64)) == 0, z3.URem(n, bv(8, 64)) == 0, z3.ULE(n, bv(reg.size, 64)),
                                   z3.ULE(offb, bv(reg.size, 64) - n)), "memset(sym) " + reg.name)
                for o in range(0, reg.size, 8):
                    oldv = self.read_cell(st, reg, o, 8)
                    inside = z3.And(z3.ULE(offb, bv(o, 64)), z3.ULT(bv(o, 64), offb + n))
                    self.write_cell(reg, o, 8, z3.simplify(z3.If(inside, pat, oldv)))
                return None
            n = n.as_long()
            byte = z3.simplify(v).as_long()
            off = p.off
            if not isinstance(off, int):
                raise Unsupported("memset at symbolic offset")
            reg = st.regions[p.rid]
            self.oblige(st, ftop + ".safety:in-bounds", "safety", 0 <= off and off + n <= reg.size, "memset " + reg.name)
            o = off
            while o < off + n:
                k = 8 if (o % 8 == 0 and o + 8 <= off + n) else 1
                self.write_cell(reg, o, k, bv(int.from_bytes(bytes([byte]) * k, "little"), 8 * k))
                o += k
            return None
        if callee.startswith("llvm.memcpy") or callee.startswith("llvm.memmove") or callee == "ferret_memcpy" or callee == "memcpy":
            d, s, n = vals[0], vals[1], z3.simplify(vals[2])
            if d.rid == 0 or s.rid == 0:
                self.oblige(st, ftop + ".safety:null-deref", "safety", False, "memcpy")
                raise PathEnd()
            dreg0, sreg0 = st.regions[d.rid], st.regions[s.rid]
            if dreg0.blob is not None or sreg0.blob is not None or not z3.is_bv_value(n):
                if dreg0.blob is None or sreg0.blob is None:
                    raise Unsupported("memcpy between typed and untyped memory")
                if dreg0.freed or sreg0.freed:
                    self.oblige(st, ftop + ".safety:use-after-free", "safety", False, "memcpy")
                    raise PathEnd()
                do, so = self.offbv(d), self.offbv(s)
                self.oblige(st, ftop + ".safety:in-bounds", "safety",
                            z3.And(z3.ULE(do, do + n), z3.ULE(do + n, self.sizebv(dreg0))), "memcpy dst " + dreg0.name)
                self.oblige(st, ftop + ".safety:in-bounds", "safety",
                            z3.And(z3.ULE(so, so + n), z3.ULE(so + n, self.sizebv(sreg0))), "memcpy src " + sreg0.name)
                self.fresh += 1
                newc = z3.Array("heap!cp%d" % self.fresh, z3.BitVecSort(64), z3.BitVecSort(8))
                i = z3.BitVec("i!cp%d" % self.fresh, 64)
                st.pc.append(z3.ForAll([i], z3.Select(newc, i) == z3.If(z3.And(z3.ULE(do, i), z3.ULT(i, do + n)),
                                                                        z3.Select(sreg0.blob, so + (i - do)), z3.Select(dreg0.blob, i))))
                dreg0.blob = newc
                if dest:
                    env[dest] = d
                return None
            n = n.as_long()
            if not isinstance(d.off, int) or not isinstance(s.off, int):
                raise Unsupported("memcpy at symbolic offset")
            dreg, sreg = st.regions[d.rid], st.regions[s.rid]
            self.oblige(st, ftop + ".safety:in-bounds", "safety", 0 <= d.off and d.off + n <= dreg.size and 0 <= s.off and s.off + n <= sreg.size,
                        "memcpy %s <- %s" % (dreg.name, sreg.name))
            # copy in 8-byte words where aligned, else bytes
            chunks = []
            o = 0
            while o < n:
                k = 8 if ((s.off + o) % 8 == 0 and (d.off + o) % 8 == 0 and o + 8 <= n) else 1
                chunks.append((o, k, self.read_cell(st, sreg, s.off + o, k)))
                o += k
            for o, k, v in chunks:
                self.write_cell(dreg, d.off + o, k, v)
            if dest:
                env[dest] = d
            return None
        if callee.startswith("llvm.fshl") or callee.startswith("llvm.fshr"):
            a, b, c = vals
            w = a.size()
            sh = z3.URem(c, bv(w, w))
            cat = z3.Concat(a, b)
            sh2 = z3.ZeroExt(w, sh)
            if "fshl" in callee:
                r = z3.Extract(2 * w - 1, w, cat << sh2)
            else:
                r = z3.Extract(w - 1, 0, z3.LShR(cat, sh2))
            env[dest] = z3.simplify(r)
            return None
        m2 = re.match(r"^llvm\.(smin|smax|umin|umax)\.i(\d+)$", callee)
        if m2:
            a, b = vals
            k = m2.group(1)
            c = {"smin": a < b, "smax": a > b, "umin": z3.ULT(a, b), "umax": z3.UGT(a, b)}[k]
            env[dest] = z3.simplify(z3.If(c, a, b))
            return None
        if callee == "llvm.abs.i64" or callee == "llvm.abs.i32":
            a = vals[0]
            env[dest] = z3.simplify(z3.If(a < 0, -a, a))
            return None
        if callee == "bcmp" or callee == "memcmp":
            a, b, n = vals[0], vals[1], z3.simplify(vals[2])
            if not z3.is_bv_value(n) or callee == "memcmp":
                raise Unsupported(callee + " (symbolic or ordering)")
            n = n.as_long()
            ra, rb = st.regions[a.rid], st.regions[b.rid]
            eqs = []
            o = 0
            while o < n:
                k = 8 if (o + 8 <= n and (a.off + o) % 8 == 0 and (b.off + o) % 8 == 0) else 1
                eqs.append(self.read_cell(st, ra, a.off + o, k) == self.read_cell(st, rb, b.off + o, k))
                o += k
            env[dest] = z3.simplify(z3.If(z3.And(*eqs), bv(0, 32), bv(1, 32)))
            return None
        if callee == "malloc":
            n = vals[0]
            nc = z3.simplify(n)
            def mk(st2, env2, n=n, dest=dest, nc=nc):
                if z3.is_bv_value(nc) and nc.as_long() <= 256:
                    reg = Region("malloc%d" % (Region._n + 1), nc.as_long())
                    st2.regions[reg.id] = reg
                    env2[dest] = Ptr(reg.id, 0)
                    return
                reg = Region("malloc%d" % (Region._n + 1), n, blob=z3.Array("heap!%d" % (Region._n + 1), z3.BitVecSort(64), z3.BitVecSort(8)))
                st2.regions[reg.id] = reg
                env2[dest] = Ptr(reg.id, 0)
            return ("split", [(None, {}, mk), (None, {dest: NULL}, None)])
        if callee == "free":
            p = vals[0]
            if p.rid != 0:
                reg = st.regions[p.rid]
                self.oblige(st, ftop + ".safety:free-of-interior-or-freed", "safety", (not reg.freed) and isinstance(p.off, int) and p.off == 0, reg.name)
                reg.freed = True
            return None
        if callee == "realloc":
            p, n = vals
            def mk(st2, env2, p=p, n=n, dest=dest):
                old = st2.regions.get(p.rid) if p.rid != 0 else None
                content = old.blob if (old is not None and old.blob is not None) else z3.Array("heap!%d" % (Region._n + 1), z3.BitVecSort(64), z3.BitVecSort(8))
                reg = Region("realloc%d" % (Region._n + 1), n, blob=content)
                st2.regions[reg.id] = reg
                if old is not None:
                    old.freed = True
                env2[dest] = Ptr(reg.id, 0)
            if p.rid != 0:
                reg0 = st.regions[p.rid]
                self.oblige(st, ftop + ".safety:free-of-interior-or-freed", "safety", (not reg0.freed) and isinstance(p.off, int) and p.off == 0, reg0.name)
                if reg0.blob is None:
                    raise Unsupported("realloc of a typed region")
            # realloc(p, 0) may free and return NULL; modelled as: either a new block or NULL with p untouched
            return ("split", [(None, {}, mk), (None, {dest: NULL}, None)])
        if callee in getattr(self, "summaries", {}):
            return self.apply_summary(self.summaries[callee], st, env, vals, dest, ftop)
        if callee in self.fns and self.fns[callee].blocks and len(self.fns[callee].order) > 0 and sum(len(b) for b in self.fns[callee].blocks.values()) > 0:
            cf = self.fns[callee]
            # byval arguments are copies
            cargs = []
            for (ty, name, full), v in zip(cf.params, vals):
                if "byval" in full and isinstance(v, Ptr):
                    src = st.regions[v.rid]
                    cp = Region(src.name + "_copy", src.size, src.cells)
                    st.regions[cp.id] = cp
                    v = Ptr(cp.id, v.off)
                cargs.append(v)
            return ("call", cf, cargs, dest)
        raise Unsupported("call to external function " + callee)


class PathEnd(Exception):
    pass

def _apply_summary(self, c, st, env, vals, dest, ftop):
    """Call of an internal function that has a `summary` contract: the callee's body is not
    entered; its outputs are fresh values constrained by the summary's ensures clauses (an
    assumed contract, reported as such; the summary names how the callee itself is checked)."""
    if len(vals) != len(c.params):
        raise Unsupported("summary %s: %d parameters in the contract, %d at the call" % (c.name, len(c.params), len(vals)))
    count = None
    for (ty, name, is_out), v in zip(c.params, vals):
        if ty == "count":
            v = z3.simplify(v)
            if not z3.is_bv_value(v):
                raise Unsupported("summary %s: limb count is not a constant at the call" % c.name)
            count = v.as_long()
    spec = {}
    outs = []
    self.fresh += 1
    tag = self.fresh
    for (ty, name, is_out), v in zip(c.params, vals):
        if ty == "limbs":
            if count is None:
                raise Unsupported("summary %s: limbs parameter without a count parameter" % c.name)
            if not isinstance(v, Ptr) or v.rid == 0 or not isinstance(v.off, int):
                raise Unsupported("summary %s: limbs argument is not a concrete pointer" % c.name)
            reg = st.regions[v.rid]
            self.oblige(st, ftop + ".safety:in-bounds", "safety", 0 <= v.off and v.off + 8 * count <= reg.size, "summary %s arg %s" % (c.name, name))
            if is_out:
                nv = z3.BitVec("%s!%s!%d" % (c.name, name, tag), 64 * count)
                outs.append((reg, v.off, nv))
                spec[name] = nv
            else:
                spec[name] = limbs_to_bv([self.read_cell(st, reg, v.off + 8 * i, 8) for i in range(count)])
        elif ty == "count":
            spec[name] = z3.simplify(v)
        else:
            spec[name] = v
    # outputs alias inputs only if the same pointer was passed: inputs were read above, before any write
    for reg, off, nv in outs:
        for i in range(count):
            self.write_cell(reg, off + 8 * i, 8, z3.Extract(64 * i + 63, 64 * i, nv))
    envs = spec_env()
    if c.ret == "bool":
        rb = z3.Bool("%s!result!%d" % (c.name, tag))
        spec["result"] = rb
        if dest:
            env[dest] = z3.If(rb, bv(1, 1), bv(0, 1))
    elif c.ret != "void":
        raise Unsupported("summary %s: return type %s" % (c.name, c.ret))
    for r in c.requires:
        self.oblige(st, "%s.requires-at-call:%s" % (ftop, c.name), "requires-at-call", eval(r, {**envs, **spec}), c.name)
    for e in c.ensures:
        st.pc.append(eval(e, {**envs, **spec}))
    self.notes.add("summary of %s assumed at its call sites (the callee is checked separately: %s)" % (c.name, c.bounded or "not checked"))
    return None


# ------------------------------------------------------------------ contracts

class Contract:
    def __init__(self, name, ret, params):
        self.name, self.ret, self.params = name, ret, params
        self.requires, self.ensures, self.bounded, self.line = [], [], None, 0
        self.lemmas = []
        self.summary = False
        self.native = None

def parse_contracts(path):
    out = []
    cur = None
    last = None
    for ln, raw in enumerate(open(path), 1):
        s = raw.split("#", 1)[0].rstrip()
        if not s.strip():
            continue
        s = s.strip()
        if s.startswith("option "):
            if s[7:].strip() == "opaque-mul":
                OPAQUE_MUL[0] = True
            continue
        if s.startswith("nativefunc "):
            cur = Contract(s[11:].strip(), "void", [])
            cur.line = ln
            out.append(cur)
            last = None
            continue
        if s.startswith("func ") or s.startswith("summary "):
            is_summary = s.startswith("summary ")
            if is_summary:
                s = "func " + s[8:]
            m = re.match(r"^func (\w+)\s*:\s*([\w*]+)\s*<-\s*(.*)$", s)
            if not m:
                raise SystemExit("%s:%d: bad func line" % (path, ln))
            params = []
            for p in split_top(m.group(3)):
                toks = p.split()
                out_flag = toks[0] == "out"
                if out_flag:
                    toks = toks[1:]
                params.append((toks[0], toks[1], out_flag))
            cur = Contract(m.group(1), m.group(2), params)
            cur.summary = is_summary
            cur.line = ln
            out.append(cur)
        elif s.startswith("requires "):
            cur.requires.append(s[9:].strip())
            last = cur.requires
        elif s.startswith("ensures "):
            cur.ensures.append(s[8:].strip())
            last = cur.ensures
        elif s.startswith("lemma "):
            cur.lemmas.append(s[6:].strip())
            last = cur.lemmas
        elif s.startswith("bounded "):
            cur.bounded = s[8:].strip()
        elif s.startswith("native "):
            cur.native = s[7:].strip()
        else:
            # continuation
            if cur and last:
                last[-1] += " " + s
            else:
                raise SystemExit("%s:%d: unknown line" % (path, ln))
    return out

Engine.apply_summary = _apply_summary

FUNC_BUDGET = int(os.environ.get('LLVC_FUNC_BUDGET', '90'))
OPAQUE_MUL = [False]
_UMUL = z3.Function("umul64", z3.BitVecSort(64), z3.BitVecSort(64), z3.BitVecSort(64))
_MULOK = z3.Function("mulok64", z3.BitVecSort(64), z3.BitVecSort(64), z3.BoolSort())

def _sorted2(a, b):
    return (a, b) if str(a) <= str(b) else (b, a)

def umul(a, b):
    a, b = z3.simplify(a), z3.simplify(b)
    if z3.is_bv_value(a) and z3.is_bv_value(b):
        return z3.simplify(a * b)
    a, b = _sorted2(a, b)
    return _UMUL(a, b)

def mulok(a, b):
    a, b = z3.simplify(a), z3.simplify(b)
    if z3.is_bv_value(a) and z3.is_bv_value(b):
        return z3.BoolVal(a.as_long() * b.as_long() < 2**64)
    a, b = _sorted2(a, b)
    return _MULOK(a, b)

WIDTH = {"i128": 128, "u128": 128, "i256": 256, "u256": 256}

def limbs_to_bv(limbs):
    return z3.Concat(*reversed(limbs)) if len(limbs) > 1 else limbs[0]

def spec_env():
    def shl(a, n):      # a * 2^n mod 2^N for n >= 0 (n: 32-bit)
        w = a.size()
        n2 = z3.ZeroExt(w - 32, n)
        return z3.If(z3.UGE(n2, bv(w, w)), bv(0, w), a << n2)
    def lshr(a, n):
        w = a.size()
        n2 = z3.ZeroExt(w - 32, n)
        return z3.If(z3.UGE(n2, bv(w, w)), bv(0, w), z3.LShR(a, n2))
    def ashr(a, n):
        w = a.size()
        n2 = z3.ZeroExt(w - 32, n)
        return z3.If(z3.UGE(n2, bv(w, w)), z3.If(a < 0, bv(-1, w), bv(0, w)), a >> n2)
    def sext(x, w):
        return z3.SignExt(w - x.size(), x)
    def zext(x, w):
        return z3.ZeroExt(w - x.size(), x)
    def trunc(x, w):
        return z3.Extract(w - 1, 0, x)
    # Wide division is specified through ONE pair of uninterpreted symbols per width, standing for
    # floor division / remainder of the unsigned values (divisor non-zero).  The signed operations
    # are DEFINED from them exactly as SMT-LIB defines bvsdiv/bvsrem (magnitudes, then the sign:
    # quotient negative iff the signs differ, remainder takes the sign of the dividend; MIN / -1
    # wraps), so what is proved of the wrappers is their sign/magnitude/zero logic around the
    # division core, whose agreement with these symbols is the summary's (bounded) business.
    def udivw(a, b):
        w = a.size()
        return z3.Function("udiv%d" % w, z3.BitVecSort(w), z3.BitVecSort(w), z3.BitVecSort(w))(a, b)
    def uremw(a, b):
        w = a.size()
        return z3.Function("urem%d" % w, z3.BitVecSort(w), z3.BitVecSort(w), z3.BitVecSort(w))(a, b)
    def tdiv(a, b):     # signed truncating division on bit-vectors (wraps for MIN / -1)
        q = udivw(z3.If(a < 0, -a, a), z3.If(b < 0, -b, b))
        return z3.If((a < 0) != (b < 0), -q, q)
    def trem(a, b):
        r = uremw(z3.If(a < 0, -a, a), z3.If(b < 0, -b, b))
        return z3.If(a < 0, -r, r)
    def wf(length, capacity, elem_size, alloc):
        if OPAQUE_MUL[0]:
            cap64 = z3.ZeroExt(32, capacity)
            return z3.And(length >= 0, length <= capacity, capacity >= 0, elem_size != 0, z3.ULE(elem_size, bv(1 << 32, 64)),
                          mulok(cap64, elem_size), alloc == umul(cap64, elem_size))
        return wf_exact(length, capacity, elem_size, alloc)
    def wf_exact(length, capacity, elem_size, alloc):
        # representation invariant of ferret_array_t (C17): 0 <= length <= capacity, elem_size > 0,
        # the data block holds exactly capacity*elem_size bytes and that product does not overflow
        cap64 = z3.SignExt(32, capacity)
        return z3.And(length >= 0, length <= capacity, capacity >= 0, elem_size != 0, z3.ULE(elem_size, bv(1 << 32, 64)),
                      z3.BVMulNoOverflow(cap64, elem_size, False), alloc == cap64 * elem_size)
    _q = [0]
    def forall_i(f):
        _q[0] += 1
        i = z3.BitVec("q!%d" % _q[0], 64)
        return z3.ForAll([i], f(i))
    def mulmono(a, b, c):
        # instance of: 0 <= a <= b and b*c < 2^64  ==>  a*c <= b*c and a*c < 2^64  (proved over the integers on every run)
        return z3.Implies(z3.And(z3.ULE(a, b), z3.BVMulNoOverflow(b, c, False)), z3.And(z3.ULE(a * c, b * c), z3.BVMulNoOverflow(a, c, False)))
    def mulstep_o(a, b, c):
        return z3.Implies(z3.And(z3.ULT(a, b), mulok(b, c)),
                          z3.And(mulok(a, c), z3.ULE(umul(a, c) + c, umul(b, c)), z3.ULE(umul(a, c), umul(a, c) + c)))
    def mulbound(a, c):
        # a <= 2^31 and c <= 2^32  ==>  a*c < 2^64   (integers, every run)
        return z3.Implies(z3.And(z3.ULE(a, bv(1 << 31, 64)), z3.ULE(c, bv(1 << 32, 64))), mulok(a, c))
    def mulzero(c):
        return z3.And(mulok(bv(0, 64), c), umul(bv(0, 64), c) == 0)
    def mulstep(a, b, c):
        if OPAQUE_MUL[0]:
            return mulstep_o(a, b, c)
        # instance of: 0 <= a < b and b*c < 2^64  ==>  a*c + c <= b*c (no overflow anywhere)   (integers, every run)
        return z3.Implies(z3.And(z3.ULT(a, b), z3.BVMulNoOverflow(b, c, False)),
                          z3.And(z3.BVMulNoOverflow(a, c, False), z3.ULE(a * c + c, b * c), z3.ULE(a * c, a * c + c)))
    return {"wf": wf, "forall_i": forall_i, "mulmono": mulmono, "mulstep": mulstep, "mulbound": mulbound, "mulzero": mulzero, "mul": umul, "Select": z3.Select, "mulok": mulok,
            "ult": z3.ULT, "ule": z3.ULE, "ugt": z3.UGT, "uge": z3.UGE, "slt": lambda a, b: a < b, "sgt": lambda a, b: a > b,
            "sle": lambda a, b: a <= b, "sge": lambda a, b: a >= b,
            "shl": shl, "lshr": lshr, "ashr": ashr, "sext": sext, "zext": zext, "trunc": trunc, "udiv": udivw, "urem": uremw,
            "tdiv": tdiv, "trem": trem, "If": z3.If, "And": z3.And, "Or": z3.Or, "Not": z3.Not, "Implies": z3.Implies,
            "bv": lambda v, w: z3.BitVecVal(v, w)}


def verify_contract(eng, fns, c, alias_cfg=None):
    """Returns list of obligation dicts with status; raises Unsupported."""
    fn = fns.get(c.name)
    if fn is None:
        raise KeyError("function %s not found in IR" % c.name)
    st = State()
    args = []
    specvals = {}
    inputs = {}      # name -> list of limb vars
    irp = list(fn.params)
    pi = 0
    sret_region = None
    if c.ret in WIDTH and WIDTH[c.ret] == 256:
        # sret pointer first
        reg = Region("result", 32)
        st.regions[reg.id] = reg
        sret_region = reg
        args.append(Ptr(reg.id, 0))
        pi += 1
    ptr_regions = {}
    for k, (ty, name, is_out) in enumerate(c.params):
        base = ty.rstrip("*")
        if ty.endswith("*") and base in WIDTH:
            n = WIDTH[base] // 64
            grp = alias_cfg[k] if alias_cfg else k
            if grp in ptr_regions:
                reg, limbs = ptr_regions[grp]
            else:
                limbs = [z3.BitVec("%s_%d" % (name, i), 64) for i in range(n)]
                reg = Region(name, n * 8, {i * 8: (8, limbs[i]) for i in range(n)})
                st.regions[reg.id] = reg
                ptr_regions[grp] = (reg, limbs)
                inputs[name] = limbs
            args.append(Ptr(reg.id, 0))
            specvals[name] = limbs_to_bv(limbs)
            specvals["__reg_" + name] = reg.id
            pi += 1
        elif base in WIDTH:
            n = WIDTH[base] // 64
            limbs = [z3.BitVec("%s_%d" % (name, i), 64) for i in range(n)]
            inputs[name] = limbs
            specvals[name] = limbs_to_bv(limbs)
            if n == 2:
                args += limbs
                pi += 2
            else:
                reg = Region(name, 32, {i * 8: (8, limbs[i]) for i in range(4)})
                st.regions[reg.id] = reg
                args.append(Ptr(reg.id, 0))
                pi += 1
        elif ty == "array*":
            null = bool(alias_cfg and alias_cfg.get(k) == "null")
            ln, cp, es = z3.BitVec(name + "_length", 32), z3.BitVec(name + "_capacity", 32), z3.BitVec(name + "_elem_size", 64)
            alloc = z3.BitVec(name + "_alloc", 64)
            mem = z3.Array(name + "_mem", z3.BitVecSort(64), z3.BitVecSort(8))
            specvals.update({name + "_null": z3.BoolVal(null), name + "_length": ln, name + "_capacity": cp, name + "_elem_size": es,
                             name + "_alloc": alloc, name + "_mem": mem})
            inputs[name + "_length"], inputs[name + "_capacity"], inputs[name + "_elem_size"], inputs[name + "_alloc"] = [ln], [cp], [es], [alloc]
            if null:
                args.append(NULL)
            else:
                D = Region(name + "_data", alloc, blob=mem)
                st.regions[D.id] = D
                S = Region(name, 24, {0: (8, Ptr(D.id, 0)), 8: (4, ln), 12: (4, cp), 16: (8, es)})
                st.regions[S.id] = S
                args.append(Ptr(S.id, 0))
                specvals["__struct_" + name] = S.id
                specvals["__data_" + name] = D.id
            pi += 1
        elif ty == "bytes":
            null = bool(alias_cfg and alias_cfg.get(k) == "null")
            alloc = z3.BitVec(name + "_alloc", 64)
            mem = z3.Array(name + "_mem", z3.BitVecSort(64), z3.BitVecSort(8))
            specvals.update({name + "_null": z3.BoolVal(null), name + "_alloc": alloc, name + "_mem": mem})
            inputs[name + "_alloc"] = [alloc]
            if null:
                args.append(NULL)
            else:
                B = Region(name, alloc, blob=mem)
                st.regions[B.id] = B
                args.append(Ptr(B.id, 0))
                specvals["__blob_" + name] = B.id
            pi += 1
        else:
            w = {"int": 32, "i32": 32, "u32": 32, "i64": 64, "u64": 64, "size": 64, "bool": 1}[base]
            v = z3.BitVec(name, w)
            inputs[name] = [v]
            specvals[name] = v
            args.append(v)
            pi += 1
    if pi != len(irp):
        raise Unsupported("contract signature of %s does not match the IR (%d vs %d parameters)" % (c.name, pi, len(irp)))
    env = spec_env()
    pre = dict(specvals)
    for r in c.requires:
        st.pc.append(eval(r, {**env, **pre}))
    for l in c.lemmas:
        st.pc.append(eval(l, {**env, **pre}))
        eng.notes.add("lemma instance assumed in the bit-vector queries: " + l)
    results = []
    start = len(eng.obls)

    def on_return(st2, rv):
        post = dict(pre)
        if c.ret in WIDTH:
            if WIDTH[c.ret] == 128:
                post["result"] = limbs_to_bv([rv[0], rv[1]])
            else:
                reg = st2.regions[sret_region.id]
                post["result"] = limbs_to_bv([eng.read_cell(st2, reg, i * 8, 8) for i in range(4)])
        elif c.ret == "bool":
            post["result"] = (rv == 1) if rv.size() == 1 else (rv != 0)
        elif c.ret in ("i64", "u64", "int", "i32"):
            post["result"] = rv
        for (ty, name, is_out) in c.params:
            if ty.endswith("*") and ty.rstrip("*") in WIDTH:
                reg = st2.regions[pre["__reg_" + name]]
                n = WIDTH[ty.rstrip("*")] // 64
                post[name + "_post"] = limbs_to_bv([eng.read_cell(st2, reg, i * 8, 8) for i in range(n)])
                if is_out:
                    post[name] = post[name + "_post"]
        def struct_view(prefix, sid):
            S = st2.regions[sid]
            def cell(off, n, dflt):
                c = S.cells.get(off)
                if c and c[0] == n:
                    return c[1]
                # a field written as part of a wider store (clang merges adjacent field stores)
                for o, (cn, v) in S.cells.items():
                    if not isinstance(v, Ptr) and o <= off and off + n <= o + cn and cn > n:
                        lo = (off - o) * 8
                        return z3.simplify(z3.Extract(lo + n * 8 - 1, lo, v))
                return dflt
            dp = cell(0, 8, NULL)
            post[prefix + "_length"] = cell(8, 4, z3.BitVec(prefix + "_length_undef", 32))
            post[prefix + "_capacity"] = cell(12, 4, z3.BitVec(prefix + "_capacity_undef", 32))
            post[prefix + "_elem_size"] = cell(16, 8, z3.BitVec(prefix + "_elem_size_undef", 64))
            post[prefix + "_struct_freed"] = z3.BoolVal(S.freed)
            if isinstance(dp, Ptr) and dp.rid != 0:
                D = st2.regions[dp.rid]
                post[prefix + "_data_null"] = z3.BoolVal(False)
                post[prefix + "_alloc"] = eng.sizebv(D)
                post[prefix + "_mem"] = D.blob if D.blob is not None else z3.Array(prefix + "_nomem", z3.BitVecSort(64), z3.BitVecSort(8))
                post[prefix + "_data_freed"] = z3.BoolVal(D.freed)
                post[prefix + "_data_off"] = eng.offbv(dp)
                post["__rid_" + prefix] = dp.rid
            else:
                post[prefix + "_data_null"] = z3.BoolVal(True)
                post[prefix + "_alloc"] = bv(0, 64)
                post[prefix + "_mem"] = z3.Array(prefix + "_nomem", z3.BitVecSort(64), z3.BitVecSort(8))
                post[prefix + "_data_freed"] = z3.BoolVal(False)
                post[prefix + "_data_off"] = bv(0, 64)
                post["__rid_" + prefix] = 0
        for (ty, name, is_out) in c.params:
            if ty == "array*" and ("__struct_" + name) in pre:
                struct_view(name + "_post", pre["__struct_" + name])
                post[name + "_data_moved"] = z3.BoolVal(post["__rid_" + name + "_post"] != pre["__data_" + name])
                post[name + "_old_data_freed"] = z3.BoolVal(st2.regions[pre["__data_" + name]].freed)
            elif ty == "array*":
                for f in ("_length", "_capacity", "_elem_size", "_alloc", "_mem"):
                    post[name + "_post" + f] = pre[name + f]
                post[name + "_post_data_null"] = z3.BoolVal(True)
                post[name + "_post_data_freed"] = z3.BoolVal(False)
                post[name + "_post_struct_freed"] = z3.BoolVal(False)
                post[name + "_data_moved"] = z3.BoolVal(False)
                post[name + "_old_data_freed"] = z3.BoolVal(False)
                post["__rid_" + name + "_post"] = 0
        if c.ret == "ptr":
            post["result_null"] = z3.BoolVal(rv.rid == 0)
            post["result_off"] = eng.offbv(rv)
            for (ty, name, is_out) in c.params:
                if ty == "array*":
                    post["result_in_" + name] = z3.BoolVal(rv.rid != 0 and rv.rid == post.get("__rid_" + name + "_post", -1))
        if c.ret == "array*":
            post["result_null"] = z3.BoolVal(rv.rid == 0)
            if rv.rid != 0:
                struct_view("result", rv.rid)
                for (ty, name, is_out) in c.params:
                    if ty == "bytes" and ("__blob_" + name) in pre:
                        post["result_data_is_" + name] = z3.BoolVal(post["__rid_result"] == pre["__blob_" + name])
            else:
                for f, w in (("_length", 32), ("_capacity", 32), ("_elem_size", 64), ("_alloc", 64)):
                    post["result" + f] = bv(0, w)
                post["result_data_null"] = z3.BoolVal(True)
        for k, e in enumerate(c.ensures):
            eng.oblige(st2, "%s.ensures#%d" % (c.name, k), "ensures", eval(e, {**env, **post}), c.name)
        eng.paths += 1

    eng.run_function(fn, args, st, 0, on_return, c.name)
    return eng.obls[start:], inputs


def worker(job):
    repo, cpath, ll, only_name, timeout, second, outdir = job
    import signal
    def on_alarm(sig, frm):
        raise Unsupported("time budget of %ds for one function exceeded" % FUNC_BUDGET)
    signal.signal(signal.SIGALRM, on_alarm)
    signal.alarm(FUNC_BUDGET)
    fns = parse_ll(open(ll).read())
    contracts = parse_contracts(os.path.join(repo, cpath))
    class A: pass
    a = A()
    a.timeout, a.second, a.out, a.src = timeout, second, outdir, cpath
    only = {only_name}
    res = {"functions": [], "assumption_scan": {}}
    agg = {}
    order = []
    t1 = time.time()
    total_solver = 0.0
    vcs = 0
    for c in contracts:
        if only and c.name not in only:
            continue
        fo = {"func": c.name, "pkg": a.src, "paths": 0, "requires_satisfiable": "sat"}
        if c.bounded:
            fo["bounded"] = c.bounded
            res["assumption_scan"]["bounded"] = res["assumption_scan"].get("bounded", 0) + 1
        if c.name not in fns:
            fo["error"], fo["error_kind"] = "function not found in the compiled unit", "missing-target"
            res["functions"].append(fo)
            continue
        fo["ssa_instrs"] = sum(len(b) for b in fns[c.name].blocks.values())
        if c.native:
            # bounded native stand-in: the real function, compiled by cc, on a stated family of inputs
            sys.path.insert(0, os.path.dirname(os.path.abspath(__file__)))
            import bounded as B
            name = "%s.bounded:%s" % (c.name, c.native)
            ag = {"name": name, "kind": "bounded", "func": c.name, "where": [], "instances": 0, "trivial": 0, "status": "unsat",
                  "solvers": {}, "secs": 0.0, "max_secs": 0.0, "failures": []}
            ts = time.time()
            try:
                ncases, fail, family = B.FAMILIES[c.native](repo, os.path.join(outdir, "bounded_" + c.name))
                ag["instances"] = ncases
                ag["solvers"]["native-run(bounded)"] = ncases
                fo["bounded"] = (c.bounded or "") + " — family: " + family + " (%d cases)" % ncases
                if fail is not None:
                    ag["status"] = "sat"
                    ag["failures"].append({"where": "native run of " + c.name, "model": {k: str(v) for k, v in fail.items()}, "smt_file": None})
            except Exception as e:
                fo["error"], fo["error_kind"] = "bounded stand-in: " + str(e), "unsupported"
            ag["secs"] = ag["max_secs"] = time.time() - ts
            agg[name] = ag
            order.append(name)
            res["functions"].append(fo)
            continue
        # aliasing configurations for pointer parameters
        ptr_idx = [k for k, (ty, _, _) in enumerate(c.params) if ty.endswith("*") and ty != "array*"]
        cfgs = [None]
        nullable = [k for k, (ty, _, _) in enumerate(c.params) if ty in ("array*", "bytes")]
        if nullable:
            cfgs = []
            for combo in itertools.product(["valid", "null"], repeat=len(nullable)):
                cfgs.append({k: v for k, v in zip(nullable, combo)})
        elif ptr_idx:
            cfgs = []
            def parts(items):
                if not items:
                    yield []
                    return
                first, rest = items[0], items[1:]
                for p in parts(rest):
                    for i in range(len(p)):
                        yield p[:i] + [[first] + p[i]] + p[i + 1:]
                    yield [[first]] + p
            for p in parts(ptr_idx):
                m = {}
                for g in p:
                    for k in g:
                        m[k] = min(g)
                cfgs.append({k: m.get(k, k) for k in range(len(c.params))})
        try:
            for cfg in cfgs:
                eng = Engine(fns, timeout_ms=a.timeout * 1000)
                eng.summaries = {x.name: x for x in contracts if x.summary}
                obls, inputs = verify_contract(eng, fns, c, cfg)
                for nt in eng.notes:
                    if nt.startswith("summary of ") and nt not in fo.setdefault("notes", []):
                        fo["notes"].append(nt)
                fo["paths"] += eng.paths
                tag = ""
                if cfg and nullable:
                    tag = "[" + ",".join("%s=%s" % (c.params[k][1], cfg[k]) for k in cfg) + "]"
                elif cfg and any(cfg[k] != k for k in cfg):
                    tag = "[alias " + ",".join("%s=%s" % (c.params[k][1], c.params[cfg[k]][1]) for k in cfg if cfg[k] != k) + "]"
                # requires satisfiable?
                for o in obls:
                    vcs += 1
                    name = o["name"]
                    ag = agg.get(name)
                    if ag is None:
                        ag = {"name": name, "kind": o["kind"], "func": c.name, "where": [], "instances": 0, "trivial": 0, "status": "unsat",
                              "solvers": {}, "secs": 0.0, "max_secs": 0.0, "failures": []}
                        agg[name] = ag
                        order.append(name)
                    g = o["goal"]
                    if z3.is_true(g):
                        ag["trivial"] += 1
                        ag["solvers"]["syntactic"] = ag["solvers"].get("syntactic", 0) + 1
                        continue
                    ag["instances"] += 1
                    s = z3.Solver()
                    s.set("timeout", a.timeout * 1000)
                    for p in o["pc"]:
                        s.add(p)
                    s.add(z3.Not(g))
                    fn_smt = os.path.join(a.out, "vc_%04d_%s.smt2" % (vcs, re.sub(r"[^\w.-]", "_", name)))
                    open(fn_smt, "w").write("(set-logic ALL)\n" + s.to_smt2())
                    ts = time.time()
                    r = s.check()
                    dt = time.time() - ts
                    total_solver += dt
                    ag["secs"] += dt
                    ag["max_secs"] = max(ag["max_secs"], dt)
                    ag["solvers"]["z3-5.1(api)"] = ag["solvers"].get("z3-5.1(api)", 0) + 1
                    if r == z3.unsat:
                        if a.second:
                            r2 = subprocess.run(["cvc5", "--tlimit=%d" % (a.timeout * 1000), fn_smt], capture_output=True, text=True)
                            ag.setdefault("second_solver", [])
                            v = "cvc5:" + (r2.stdout.strip().split("\n")[0] if r2.stdout.strip() else "no-answer")
                            if v not in ag["second_solver"]:
                                ag["second_solver"].append(v)
                        if "smt_file" not in ag:
                            ag["smt_file"] = fn_smt
                        continue
                    if r == z3.sat:
                        mdl = s.model()
                        model = {}
                        for nm, limbs in inputs.items():
                            for i, l in enumerate(limbs):
                                v = mdl.eval(l, model_completion=True)
                                model["%s_%d" % (nm, i) if len(limbs) > 1 else nm] = str(v.as_long())
                        ag["status"] = "sat"
                        ag["smt_file"] = fn_smt
                        if len(ag["failures"]) < 10:
                            ag["failures"].append({"where": (o["where"] + " " + tag).strip(), "model": model, "smt_file": fn_smt})
                    else:
                        if ag["status"] == "unsat":
                            ag["status"] = "unknown"
                            ag["smt_file"] = fn_smt
                            ag["solver_output"] = "z3: " + s.reason_unknown()
        except Unsupported as e:
            fo["error"], fo["error_kind"] = str(e), "unsupported"
        except KeyError as e:
            fo["error"], fo["error_kind"] = str(e), "missing-target"
        res["functions"].append(fo)

    signal.alarm(0)
    fo = res["functions"][0] if res["functions"] else {"func": only_name, "error": "no contract", "error_kind": "missing-target"}
    return fo, [agg[n] for n in order], total_solver, vcs


CTYPE = {"i128": "ferret_i128", "u128": "ferret_u128", "i256": "ferret_i256", "u256": "ferret_u256", "bool": "bool",
         "int": "int", "i64": "int64_t", "u64": "uint64_t", "i32": "int32_t"}

def replay(repo, src, cpath, fname, model, alias_tag, scratch):
    """Runs the real C function on the model's inputs; returns (confirmed, text)."""
    contracts = {c.name: c for c in parse_contracts(os.path.join(repo, cpath))}
    c = contracts[fname]
    decl, call_args, post = [], [], []
    alias = {}
    if alias_tag:
        for kv in re.findall(r"(\w+)=(\w+)", alias_tag):
            alias[kv[0]] = kv[1]
    vals = {}
    for ty, name, is_out in c.params:
        base = ty.rstrip("*")
        if base in WIDTH:
            n = WIDTH[base] // 64
            src_name = alias.get(name, name)
            limbs = [int(model.get("%s_%d" % (src_name, i), 0)) for i in range(n)]
            vals[name] = sum(l << (64 * i) for i, l in enumerate(limbs))
            if ty.endswith("*"):
                if name in alias:
                    call_args.append("&" + alias[name])
                else:
                    decl.append("%s %s = {{%s}};" % (CTYPE[base], name, ", ".join("%dULL" % l for l in limbs)))
                    call_args.append("&" + name)
                post.append((name, n))
            else:
                decl.append("%s %s = {{%s}};" % (CTYPE[base], name, ", ".join("%dULL" % l for l in limbs)))
                call_args.append(name)
        else:
            v = int(model.get(name, 0))
            w = {"int": 32, "i32": 32, "i64": 64, "u64": 64, "bool": 1}[base]
            vals[name] = v
            sv = v - (1 << w) if (base in ("int", "i32", "i64") and v >= (1 << (w - 1))) else v
            decl.append("%s %s = (%s)%dLL;" % (CTYPE[base], name, CTYPE[base], sv) if base != "u64" else "%s %s = %dULL;" % (CTYPE[base], name, v))
            call_args.append(name)
    body = ["#include <stdio.h>", "#include <stdint.h>", "#include <stdbool.h>", '#include "bigint.h"', "int main(void) {"] + ["  " + d for d in decl]
    call = "%s(%s)" % (fname, ", ".join(call_args))
    if c.ret in WIDTH:
        n = WIDTH[c.ret] // 64
        body.append("  %s r = %s;" % (CTYPE[c.ret], call))
        body.append('  printf("result"); for (int i = 0; i < %d; i++) printf(" %%llu", (unsigned long long)r.words[i]); printf("\\n");' % n)
    elif c.ret == "void":
        body.append("  %s;" % call)
    else:
        body.append('  printf("result %%llu\\n", (unsigned long long)(%s));' % call)
    for name, n in post:
        body.append('  printf("%s"); for (int i = 0; i < %d; i++) printf(" %%llu", (unsigned long long)%s.words[i]); printf("\\n");' % (name, n, alias.get(name, name)))
    body.append("  return 0; }")
    os.makedirs(scratch, exist_ok=True)
    hp = os.path.join(scratch, "harness.c")
    open(hp, "w").write("\n".join(body) + "\n")
    exe = os.path.join(scratch, "harness")
    r = subprocess.run(["gcc", "-std=c99", "-O2", "-w", "-I", os.path.join(repo, "runtime/core"), "-I", os.path.join(repo, "runtime/libs"),
                        hp, os.path.join(repo, src), "-lm", "-o", exe], capture_output=True, text=True)
    if r.returncode != 0:
        return None, "harness build failed: " + r.stderr[-600:]
    r = subprocess.run([exe], capture_output=True, text=True, timeout=20)
    outv = {}
    for line in r.stdout.strip().split("\n"):
        toks = line.split()
        if toks:
            outv[toks[0]] = [int(x) for x in toks[1:]]
    env = spec_env()
    post_env = {}
    for ty, name, is_out in c.params:
        base = ty.rstrip("*")
        w = WIDTH.get(base, {"int": 32, "i32": 32, "i64": 64, "u64": 64, "bool": 1}.get(base, 64))
        post_env[name] = z3.BitVecVal(vals[name], w)
        if ty.endswith("*") and name in outv:
            pv = sum(l << (64 * i) for i, l in enumerate(outv[name]))
            post_env[name + "_post"] = z3.BitVecVal(pv, w)
            if is_out:
                post_env[name] = z3.BitVecVal(pv, w)
    if "result" in outv:
        if c.ret in WIDTH:
            post_env["result"] = z3.BitVecVal(sum(l << (64 * i) for i, l in enumerate(outv["result"])), WIDTH[c.ret])
        elif c.ret == "bool":
            post_env["result"] = z3.BoolVal(outv["result"][0] != 0)
        else:
            post_env["result"] = z3.BitVecVal(outv["result"][0], {"int": 32, "i32": 32}.get(c.ret, 64))
    # on concrete operands the division symbols are the real operations
    env = dict(env)
    env["udiv"], env["urem"] = z3.UDiv, z3.URem
    env["tdiv"], env["trem"] = (lambda a, b: a / b), (lambda a, b: z3.SRem(a, b))
    for rq in c.requires:
        if z3.is_false(z3.simplify(eval(rq, {**env, **post_env}))):
            return False, "model violates requires " + rq
    text = "harness output:\n" + r.stdout
    for k, e in enumerate(c.ensures):
        v = z3.simplify(eval(e, {**env, **post_env}))
        text += "ensures#%d %s -> %s\n" % (k, e, v)
        if z3.is_false(v):
            return True, "REPLAY-CONFIRMED: %s violates `%s`\n%s" % (fname, e, text)
    return False, text


def main():
    import argparse
    if len(sys.argv) > 1 and sys.argv[1] == "replay":
        j = json.load(open(sys.argv[2]))
        ok, text = replay(j["repo"], j["src"], j["contracts"], j["func"], j["model"], j.get("alias", ""), j["scratch"])
        print(json.dumps({"confirmed": ok, "text": text}))
        return
    ap = argparse.ArgumentParser()
    ap.add_argument("--repo", default="/repo")
    ap.add_argument("--src", required=True)
    ap.add_argument("--contracts", required=True)
    ap.add_argument("--out", required=True)
    ap.add_argument("--only", default="")
    ap.add_argument("--timeout", type=int, default=20)
    ap.add_argument("--second", action="store_true")
    a = ap.parse_args()
    os.makedirs(a.out, exist_ok=True)
    res = {"functions": [], "obligations": [], "notes": [], "assumed_dependency_contracts": {}, "abstracted_callees": {},
           "inlined_callees": {}, "contracts_used_at_calls": {}, "assumption_scan": {}, "string_codes": {}, "type_ids": {}}
    t0 = time.time()
    ll = os.path.join(a.out, "unit.ll")
    cmd = ["clang", "-std=c99", "-O2", "-fno-vectorize", "-fno-slp-vectorize", "-fno-unroll-loops", "-w",
           "-I", os.path.join(a.repo, "runtime/core"), "-I", os.path.join(a.repo, "runtime/libs"), "-S", "-emit-llvm",
           os.path.join(a.repo, a.src), "-o", ll]
    r = subprocess.run(cmd, capture_output=True, text=True)
    if r.returncode != 0:
        res["fatal"], res["fatal_kind"] = "clang failed: " + r.stderr[-800:], "type-error"
        json.dump(res, open(os.path.join(a.out, "result.json"), "w"), indent=1)
        sys.exit(3)
    fns = parse_ll(open(ll).read())
    try:
        contracts = parse_contracts(os.path.join(a.repo, a.contracts))
    except FileNotFoundError:
        res["fatal"], res["fatal_kind"] = "contract file missing: " + a.contracts, "missing-target"
        json.dump(res, open(os.path.join(a.out, "result.json"), "w"), indent=1)
        sys.exit(3)
    res["load_secs"] = round(time.time() - t0, 2)
    only = set(a.only.split(",")) if a.only else None
    todo = [c.name for c in contracts if not only or c.name in only]
    t1 = time.time()
    import multiprocessing as mp
    jobs = [(a.repo, a.contracts, ll, name, a.timeout, a.second, a.out) for name in todo]
    with mp.Pool(min(14, max(1, len(jobs)))) as pool:
        outs = pool.map(worker, jobs)
    agg = {}
    order = []
    total_solver = 0.0
    vcs = 0
    for fo, aggs, ts, nv in outs:
        res["functions"].append(fo)
        if fo.get("bounded"):
            res["assumption_scan"]["bounded"] = res["assumption_scan"].get("bounded", 0) + 1
            res["notes"].append("BOUNDED (not proved): %s — %s" % (fo["func"], fo["bounded"]))
        for nt in fo.get("notes", []):
            if nt not in res["notes"]:
                res["notes"].append(nt)
            k = "summary contract: " + nt.split(" ")[2]
            res["assumed_dependency_contracts"][k] = res["assumed_dependency_contracts"].get(k, 0) + 1
        total_solver += ts
        vcs += nv
        for ag in aggs:
            agg[ag["name"]] = ag
            order.append(ag["name"])
    if any(c.lemmas for c in contracts if (not only or c.name in only)):
        a_, b_, c_ = z3.Ints("a b c")
        sl = z3.Solver()
        sl.set("timeout", 20000)
        sl.add(0 <= a_, a_ <= b_, 0 <= c_, b_ * c_ < 2**64,
               z3.Not(z3.And(a_ * c_ <= b_ * c_, a_ * c_ < 2**64, z3.Implies(a_ < b_, a_ * c_ + c_ <= b_ * c_),
                             z3.Implies(z3.And(b_ <= 2**31, c_ <= 2**32), b_ * c_ < 2**64))))
        rl = sl.check()
        name = "lemma.mulmono(integers)"
        agg[name] = {"name": name, "kind": "lemma", "func": "(lemma)", "where": [], "instances": 1, "trivial": 0,
                     "status": "unsat" if rl == z3.unsat else "unknown", "solvers": {"z3-5.1(api,NIA)": 1}, "secs": 0.0, "max_secs": 0.0, "failures": []}
        order.append(name)
        res["notes"].append("lemma mulmono is proved over the mathematical integers; its use on 64-bit vectors relies on: a product that does not overflow equals the integer product")
    res["obligations"] = [agg[n] for n in order]
    res["exec_secs"] = round(time.time() - t1 - total_solver, 2)
    res["solve_secs"] = round(total_solver, 2)
    res["vcs"] = vcs
    json.dump(res, open(os.path.join(a.out, "result.json"), "w"), indent=1)
    bad = [o for o in res["obligations"] if o["status"] != "unsat"]
    for f in res["functions"]:
        if f.get("error"):
            print("INCONCLUSIVE %s: %s" % (f["func"], f["error"]))
    for o in bad:
        print("FAILED %s [%s] %s" % (o["name"], o["status"], o.get("failures", [{}])[0].get("model") if o.get("failures") else ""))
    print("llvc: %d functions, %d clause-level obligations (%d VCs), %d not discharged; %.1fs" % (len(res["functions"]), len(res["obligations"]), vcs, len(bad), time.time() - t0))


if __name__ == "__main__":
    main()
