package main

import (
	"encoding/json"
	"flag"
	"fmt"
	"os"
	"path/filepath"
	"runtime/pprof"
	"sort"
	"strings"
	"sync"
	"time"
)

type Unit struct {
	Pkg  string `json:"pkg"`
	Func string `json:"func"`
}

type UnitsFile struct {
	Units    []Unit   `json:"units"`
	Baseline []string `json:"baseline"` // when non-empty: only these clause-level obligations are discharged
}

type OblOut struct {
	Name      string            `json:"name"`
	Kind      string            `json:"kind"`
	Func      string            `json:"func"`
	Where     []string          `json:"where"`
	Instances int               `json:"instances"`
	Trivial   int               `json:"trivial"`
	Status    string            `json:"status"` // unsat | sat | unknown
	Solvers   map[string]int    `json:"solvers"`
	Secs      float64           `json:"secs"`
	MaxSecs   float64           `json:"max_secs"`
	SMTFile   string            `json:"smt_file,omitempty"`
	Model     map[string]string `json:"model,omitempty"`
	Output    string            `json:"solver_output,omitempty"`
	Second    []string          `json:"second_solver,omitempty"`
	Failures  []Failure         `json:"failures,omitempty"`
}

type Failure struct {
	Where   string            `json:"where"`
	Model   map[string]string `json:"model"`
	SMTFile string            `json:"smt_file"`
}

// heapReads collects reads of the initial heap (select chains rooted at an H0$ variable with
// quantifier-free indices) so that models describe the pre-state objects.
func heapReads(ts []*Term) []*Term {
	seen := map[*Term]bool{}
	var out []*Term
	var rooted func(t *Term) bool
	rooted = func(t *Term) bool {
		if t.Op == "var" {
			return strings.HasPrefix(t.Name, "H0$")
		}
		if t.Op == "select" {
			return rooted(t.Args[0])
		}
		return false
	}
	var rec func(t *Term)
	rec = func(t *Term) {
		if seen[t] {
			return
		}
		seen[t] = true
		if t.Op == "select" && !t.hasBV && !t.Sort.IsArr() && rooted(t.Args[0]) {
			out = append(out, t)
		} else if t.Op == "select" && !t.hasBV && !t.Sort.IsArr() && t.Args[0].Op == "store" {
			// a read through writes made by this execution: also report the pre-state content
			r := t.Args[0]
			for r.Op == "store" {
				r = r.Args[0]
			}
			if rooted(r) {
				if p := Select(r, t.Args[1]); !seen[p] {
					seen[p] = true
					out = append(out, p)
				}
			}
		}
		for _, a := range t.Args {
			rec(a)
		}
	}
	for _, t := range ts {
		rec(t)
	}
	if len(out) > 200 {
		out = out[:200]
	}
	return out
}

type FuncOut struct {
	Func      string `json:"func"`
	Pkg       string `json:"pkg"`
	Instrs    int    `json:"ssa_instrs"`
	Paths     int    `json:"paths"`
	Error     string `json:"error,omitempty"`
	ErrorKind string `json:"error_kind,omitempty"`
	Cover     string `json:"requires_satisfiable"`
	Trusted   bool   `json:"trusted,omitempty"`
}

type Result struct {
	Functions   []FuncOut      `json:"functions"`
	Obligations []*OblOut      `json:"obligations"`
	Inlined     map[string]int `json:"inlined_callees"`
	Havocked    map[string]int `json:"abstracted_callees"`
	UsedSpecs   map[string]int `json:"contracts_used_at_calls"`
	AssumedDep  map[string]int `json:"assumed_dependency_contracts"`
	Notes       []string       `json:"notes"`
	Scan        map[string]int `json:"assumption_scan"`
	LoadSecs    float64        `json:"load_secs"`
	ExecSecs    float64        `json:"exec_secs"`
	SolveSecs   float64        `json:"solve_secs"`
	Retried     int            `json:"retried_undecided"`
	VCs         int            `json:"vcs"`
	FeasCalls   int            `json:"feasibility_calls"`
	Strings     map[string]string `json:"string_codes"`
	Types       map[string]string `json:"type_ids"`
	Fatal       string         `json:"fatal,omitempty"`
	FatalKind   string         `json:"fatal_kind,omitempty"`
}

func main() {
	repo := flag.String("repo", "/repo", "repository root")
	unitsPath := flag.String("units", "", "units json")
	out := flag.String("out", "out", "output directory")
	timeout := flag.Int("timeout", 20, "per-obligation solver timeout (s)")
	seed := flag.Int("seed", 0, "seed (permutes solver order)")
	second := flag.Bool("second", false, "ask a second solver to agree")
	dump := flag.String("dump", "", "dump SSA of pkg:func and exit")
	jobs := flag.Int("j", 16, "parallel solver jobs")
	cpuprof := flag.String("cpuprofile", "", "write cpu profile")
	flag.Parse()
	if *cpuprof != "" {
		f, _ := os.Create(*cpuprof)
		pprof.StartCPUProfile(f)
		defer pprof.StopCPUProfile()
	}

	res := &Result{}
	writeRes := func() {
		b, _ := json.MarshalIndent(res, "", " ")
		os.MkdirAll(*out, 0o755)
		os.WriteFile(filepath.Join(*out, "result.json"), b, 0o644)
	}
	var uf UnitsFile
	if *unitsPath != "" {
		b, err := os.ReadFile(*unitsPath)
		if err != nil {
			fmt.Fprintln(os.Stderr, err)
			os.Exit(2)
		}
		if err := json.Unmarshal(b, &uf); err != nil {
			fmt.Fprintln(os.Stderr, err)
			os.Exit(2)
		}
	}
	rels := map[string]bool{}
	for _, u := range uf.Units {
		rels[u.Pkg] = true
	}
	if *dump != "" && *dump != "ALL:GEN" {
		rels[strings.SplitN(*dump, ":", 2)[0]] = true
	}
	var rl []string
	for r := range rels {
		rl = append(rl, r)
	}
	sort.Strings(rl)
	t0 := time.Now()
	w, err := LoadWorld(*repo, rl)
	if err != nil {
		res.Fatal = err.Error()
		res.FatalKind = "load"
		switch err.(type) {
		case *MissingTarget:
			res.FatalKind = "missing-target"
		case *TypeErr:
			res.FatalKind = "type-error"
		}
		writeRes()
		fmt.Fprintln(os.Stderr, "govc: "+res.Fatal)
		os.Exit(3)
	}
	res.LoadSecs = time.Since(t0).Seconds()
	if *dump == "ALL:GEN" {
		m := map[string]string{}
		for rel, pc := range w.Contracts {
			m[rel] = pc.GenSrc
		}
		b, _ := json.Marshal(m)
		fmt.Println(string(b))
		return
	}
	if *dump != "" {
		parts := strings.SplitN(*dump, ":", 2)
		if parts[1] == "GEN" {
			fmt.Println(w.Contracts[parts[0]].GenSrc)
			return
		}
		fn := w.FuncByKey(parts[0], parts[1])
		if fn == nil {
			fmt.Fprintln(os.Stderr, "not found")
			os.Exit(2)
		}
		fn.WriteTo(os.Stdout)
		return
	}
	e := NewEngine(w)
	e.Feas = NewFeas("")
	defer e.Feas.Close()
	res.Scan = map[string]int{}
	for _, pc := range w.Contracts {
		for k, v := range pc.Scan {
			res.Scan[k] += v
		}
	}
	t1 := time.Now()
	var covers []*Obligation
	for _, u := range uf.Units {
		fn := w.FuncByKey(u.Pkg, u.Func)
		fo := FuncOut{Func: u.Func, Pkg: u.Pkg}
		if fn == nil {
			fo.Error, fo.ErrorKind = "function not found", "missing-target"
			res.Functions = append(res.Functions, fo)
			continue
		}
		fc := w.ByFunc[fn]
		if fc == nil {
			fo.Error, fo.ErrorKind = "no contract for "+u.Pkg+":"+u.Func, "missing-target"
			res.Functions = append(res.Functions, fo)
			continue
		}
		if fc.Trusted {
			fo.Trusted = true
			res.Functions = append(res.Functions, fo)
			continue
		}
		rep := e.VerifyFunc(fn, fc)
		fo.Func = rep.Func
		fo.Instrs, fo.Paths, fo.Error, fo.ErrorKind = rep.Instrs, rep.Paths, rep.Error, rep.ErrorKind
		if rep.Cover != nil {
			covers = append(covers, rep.Cover)
		}
		// trivial counts
		for name, n := range rep.Trivial {
			e.trivialAll = append(e.trivialAll, trivRec{name, rep.Func, n})
		}
		res.Functions = append(res.Functions, fo)
	}
	res.ExecSecs = time.Since(t1).Seconds()
	res.FeasCalls = e.Feas.calls

	// discharge
	t2 := time.Now()
	claimedOnly := map[string]bool{}
	for _, n := range uf.Baseline {
		claimedOnly[n] = true
	}
	// the frame obligation of a function is claimed with the function's other clauses
	for _, n := range uf.Baseline {
		for _, suf := range []string{".ensures#", ".loop[", ".safety:", ".overflow", ".decreases", ".requires-at-call"} {
			if i := strings.LastIndex(n, suf); i > 0 {
				claimedOnly[n[:i]+".frame"] = true
			}
		}
	}
	var all []*Obligation
	var skipped []*Obligation
	for _, o := range e.Obls {
		if len(claimedOnly) > 0 && !claimedOnly[o.Name] {
			o.Result = &SolveResult{Status: "skipped", Solver: "not-claimed"}
			skipped = append(skipped, o)
			continue
		}
		all = append(all, o)
	}
	all = append(all, covers...)
	res.VCs = len(all)
	os.MkdirAll(*out, 0o755)
	var wg sync.WaitGroup
	sem := make(chan struct{}, *jobs)
	var mu sync.Mutex
	scripts := make([]string, len(all))
	mu.Lock()
	for i, o := range all {
		asserts := append([]*Term{}, o.PC...)
		neg, sks := skolemNeg(o.Goal)
		asserts = append(asserts, neg)
		asserts = append(asserts, instantiate(o.PC, sks)...)
		// loop counters (and their neighbours) are the usual witnesses of existential goals and
		// the usual instances of range-quantified invariants
		if os.Getenv("GOVC_NOLOOPINST") == "" {
			cands := loopIndexTerms(asserts)
			asserts = append(asserts, instantiate(append(append([]*Term{}, o.PC...), flattenAnd(neg)...), cands)...)
		}
		// hypotheses quantified over objects (allold / allrefs) are needed at the objects the function
		// was given: instantiate them at the pointer-like inputs, and their inner index quantifier at
		// the skolems and loop counters
		if os.Getenv("GOVC_NOPTRINST") == "" {
			asserts = append(asserts, instantiateObjs(o.PC, o.Inputs, append(append([]*Term{}, sks...), loopIndexTerms(asserts)...))...)
		}
		var gv []*Term
		if o.Kind != "cover" {
			gv = append(append(append([]*Term{}, o.Inputs...), sks...), heapReads(asserts)...)
		}
		o.GetValues = gv
		scripts[i] = Script(asserts, stringAxioms(asserts), gv)
		o.File = filepath.Join(*out, fmt.Sprintf("vc_%04d_%s.smt2", i, sanitize(o.Name)))
	}
	mu.Unlock()
	for i, o := range all {
		wg.Add(1)
		sem <- struct{}{}
		go func() {
			defer wg.Done()
			defer func() { <-sem }()
			writeFile(o.File, scripts[i])
			r := Solve(o.File, *timeout, *seed, *second && o.Kind != "cover")
			if r.Status == "sat" {
				r.Model = map[string]string{}
				for k, v := range r.Values {
					if k < len(o.GetValues) {
						r.Model[o.GetValues[k].String()] = v
					}
				}
			}
			o.Result = &r
		}()
	}
	wg.Wait()
	// Second chance for undecided obligations: a loaded machine turns the wall-clock solver
	// limit into a fraction of the CPU time, and an undecided obligation is reported as a
	// violation.  Re-run the first few with three times the limit and a quarter of the jobs.
	{
		var retry []*Obligation
		for _, o := range all {
			if o.Result != nil && o.Result.Status != "sat" && o.Result.Status != "unsat" && o.Result.Status != "skipped" && len(retry) < 12 {
				retry = append(retry, o)
			}
		}
		rj := *jobs / 4
		if rj < 1 {
			rj = 1
		}
		rsem := make(chan struct{}, rj)
		for _, o := range retry {
			wg.Add(1)
			rsem <- struct{}{}
			go func() {
				defer wg.Done()
				defer func() { <-rsem }()
				first := o.Result.Secs
				r := Solve(o.File, *timeout*3, *seed+1, false)
				r.Secs += first
				if r.Status == "sat" {
					r.Model = map[string]string{}
					for k, v := range r.Values {
						if k < len(o.GetValues) {
							r.Model[o.GetValues[k].String()] = v
						}
					}
				}
				r.Retried = true
				o.Result = &r
			}()
		}
		wg.Wait()
		res.Retried = len(retry)
	}
	res.SolveSecs = time.Since(t2).Seconds()

	// aggregate per clause name
	agg := map[string]*OblOut{}
	var order []string
	for _, o := range e.Obls {
		a := agg[o.Name]
		if a == nil {
			a = &OblOut{Name: o.Name, Kind: o.Kind, Func: o.Func, Status: "unsat", Solvers: map[string]int{}}
			agg[o.Name] = a
			order = append(order, o.Name)
		}
		a.Instances++
		if len(a.Where) < 5 && o.Where != "" && !contains(a.Where, o.Where) {
			a.Where = append(a.Where, o.Where)
		}
		r := o.Result
		a.Secs += r.Secs
		if r.Secs > a.MaxSecs {
			a.MaxSecs = r.Secs
		}
		a.Solvers[r.Solver]++
		if r.Second != "" && !contains(a.Second, r.Second) {
			a.Second = append(a.Second, r.Second)
		}
		switch r.Status {
		case "unsat":
			if a.SMTFile == "" {
				a.SMTFile = o.File
			}
		case "sat":
			if len(a.Failures) < 40 {
				a.Failures = append(a.Failures, Failure{Where: o.Where, Model: r.Model, SMTFile: o.File})
			}
			if a.Status != "sat" {
				a.Status = "sat"
				a.SMTFile = o.File
				a.Model = r.Model
				a.Output = trunc(r.Output, 4000)
				if a.Where = []string{o.Where}; o.Where == "" {
					a.Where = nil
				}
			}
		case "skipped":
			a.Status = "skipped"
		default:
			if a.Status == "unsat" {
				a.Status = "unknown"
				a.SMTFile = o.File
				a.Output = trunc(r.Status+": "+r.Output, 2000)
			}
		}
	}
	_ = skipped
	for _, tr := range e.trivialAll {
		a := agg[tr.name]
		if a == nil {
			a = &OblOut{Name: tr.name, Kind: kindOf(tr.name), Func: tr.fn, Status: "unsat", Solvers: map[string]int{}}
			agg[tr.name] = a
			order = append(order, tr.name)
		}
		a.Trivial += tr.n
		a.Solvers["syntactic"] += tr.n
	}
	for _, n := range order {
		res.Obligations = append(res.Obligations, agg[n])
	}
	for i := range res.Functions {
		for _, c := range covers {
			if c.Name == res.Functions[i].Func+".requires-satisfiable" {
				res.Functions[i].Cover = c.Result.Status
			}
		}
	}
	res.Strings = map[string]string{}
	for c, sv := range strByID {
		res.Strings[fmt.Sprint(c)] = sv
	}
	res.Types = map[string]string{}
	for id, t := range typeByID {
		res.Types[fmt.Sprint(id)] = t.String()
	}
	res.Inlined, res.Havocked, res.UsedSpecs, res.AssumedDep, res.Notes = e.Inlined, e.Havocked, e.UsedSpecs, e.AssumedDep, e.Notes
	writeRes()
	// summary to stdout
	bad := 0
	for _, f := range res.Functions {
		if f.Error != "" {
			fmt.Printf("INCONCLUSIVE %s: %s\n", f.Func, f.Error)
		}
	}
	for _, o := range res.Obligations {
		if o.Status != "unsat" && o.Status != "skipped" {
			bad++
			fmt.Printf("FAILED %s [%s] %s %v\n", o.Name, o.Status, o.SMTFile, o.Where)
		}
	}
	fmt.Printf("govc: %d functions, %d clause-level obligations (%d VCs), %d not discharged; load %.1fs exec %.1fs solve %.1fs\n",
		len(res.Functions), len(res.Obligations), res.VCs, bad, res.LoadSecs, res.ExecSecs, res.SolveSecs)
}

// skolemNeg returns the negation of goal with leading universal quantifiers replaced by fresh
// constants (which are returned).
func skolemNeg(goal *Term) (*Term, []*Term) {
	var sks []*Term
	var ants []*Term
	for {
		if goal.Op == "forall" {
			m := map[*Term]*Term{}
			for _, b := range goal.Bound {
				sk := Fresh("sk$"+strings.SplitN(b.Name, "?", 2)[0], b.Sort)
				m[b] = sk
				sks = append(sks, sk)
			}
			goal = Subst(goal.Args[0], m)
			continue
		}
		if goal.Op == "=>" && (goal.Args[1].Op == "forall" || goal.Args[1].Op == "=>") {
			// not(A => forall x. B)  ==  A and exists x. not B
			ants = append(ants, goal.Args[0])
			goal = goal.Args[1]
			continue
		}
		break
	}
	// existential facts among the assumed antecedents get witnesses too
	var flat []*Term
	var split func(t *Term)
	split = func(t *Term) {
		switch {
		case t.Op == "and":
			for _, a := range t.Args {
				split(a)
			}
		case t.Op == "exists":
			m := map[*Term]*Term{}
			for _, b := range t.Bound {
				sk := Fresh("sk$"+strings.SplitN(b.Name, "?", 2)[0], b.Sort)
				m[b] = sk
				sks = append(sks, sk)
			}
			split(Subst(t.Args[0], m))
		default:
			flat = append(flat, t)
		}
	}
	for _, a := range ants {
		split(a)
	}
	return And(append(flat, Not(goal))...), sks
}

func flattenAnd(t *Term) []*Term {
	if t.Op == "and" {
		var out []*Term
		for _, a := range t.Args {
			out = append(out, flattenAnd(a)...)
		}
		return out
	}
	if t.Op == "not" && t.Args[0].Op == "exists" && len(t.Args[0].Bound) == 1 {
		// not exists x. B  ==  forall x. not B
		return []*Term{Forall(t.Args[0].Bound, Not(t.Args[0].Args[0]))}
	}
	return []*Term{t}
}

// loopIndexTerms: havocked loop counters occurring in the VC, with their successor and predecessor.
func loopIndexTerms(ts []*Term) []*Term {
	seen := map[*Term]bool{}
	var vars []*Term
	var rec func(t *Term)
	rec = func(t *Term) {
		if seen[t] {
			return
		}
		seen[t] = true
		if t.Op == "var" && t.Sort == SInt && (strings.HasPrefix(t.Name, "loop$rangeindex") || strings.HasPrefix(t.Name, "loop$i!") || strings.HasPrefix(t.Name, "loop$j!") || strings.HasPrefix(t.Name, "loop$k!") || strings.HasPrefix(t.Name, "loop$idx")) {
			vars = append(vars, t)
		}
		for _, a := range t.Args {
			rec(a)
		}
	}
	for _, t := range ts {
		rec(t)
	}
	if len(vars) > 2 {
		vars = vars[:2]
	}
	var out []*Term
	for _, v := range vars {
		out = append(out, v, Add(v, IntC(1)))
	}
	return out
}

// instantiate adds, for every universally quantified hypothesis over one integer variable,
// its instances at the skolem constants of the goal (sound: instances are implied; it spares
// the solvers the e-matching step on which the larger VCs were unstable).
func instantiate(pc []*Term, sks []*Term) []*Term {
	if len(sks) == 0 || len(sks) > 4 {
		return nil
	}
	var out []*Term
	seen := map[*Term]bool{}
	for _, h := range pc {
		if h.Op != "forall" || len(h.Bound) != 1 || h.Bound[0].Sort != SInt {
			continue
		}
		for _, sk := range sks {
			if sk.Sort != SInt {
				continue
			}
			inst := Subst(h.Args[0], map[*Term]*Term{h.Bound[0]: sk})
			if !seen[inst] && !inst.IsTrue() && len(out) < 64 {
				seen[inst] = true
				out = append(out, inst)
			}
			// a nested universal (forall i. R(i) => forall j. B) is instantiated at the inner level too
			inner, guard := inst, tTrue
			if inner.Op == "=>" {
				guard, inner = inner.Args[0], inner.Args[1]
			}
			if inner.Op == "forall" && len(inner.Bound) == 1 && inner.Bound[0].Sort == SInt {
				for _, sk2 := range sks {
					if sk2.Sort != SInt {
						continue
					}
					i2 := Implies(guard, Subst(inner.Args[0], map[*Term]*Term{inner.Bound[0]: sk2}))
					if !seen[i2] && !i2.IsTrue() && len(out) < 64 {
						seen[i2] = true
						out = append(out, i2)
					}
				}
			}
		}
	}
	return out
}

func instantiateObjs(pc []*Term, inputs []*Term, idx []*Term) []*Term {
	var ptrs []*Term
	for _, in := range inputs {
		if in.Sort == SInt && in.Op == "var" && !strings.Contains(strings.TrimPrefix(in.Name, "in$"), "$") && len(ptrs) < 8 {
			ptrs = append(ptrs, in)
		}
	}
	if len(ptrs) == 0 {
		return nil
	}
	var out []*Term
	seen := map[*Term]bool{}
	for _, h := range pc {
		if h.Op != "forall" || len(h.Bound) != 1 || h.Bound[0].Sort != SInt || !strings.HasPrefix(h.Bound[0].Name, "p?c") {
			continue
		}
		for _, p := range ptrs {
			inst := Subst(h.Args[0], map[*Term]*Term{h.Bound[0]: p})
			if !seen[inst] && !inst.IsTrue() && len(out) < 96 {
				seen[inst] = true
				out = append(out, inst)
			}
			out = append(out, instInner(inst, idx, seen, 96-len(out))...)
		}
	}
	return out
}

// instInner instantiates universals nested under implications / conjunctions / disjunctions of t.
func instInner(t *Term, idx []*Term, seen map[*Term]bool, budget int) []*Term {
	var out []*Term
	var walk func(x *Term, guard *Term)
	walk = func(x *Term, guard *Term) {
		if budget <= 0 {
			return
		}
		switch x.Op {
		case "=>":
			walk(x.Args[1], And(guard, x.Args[0]))
		case "and":
			for _, a := range x.Args {
				walk(a, guard)
			}
		case "or":
			// (A and forall...) or B: instantiate under the disjunct's own conjuncts
			for _, a := range x.Args {
				if a.Op == "and" {
					var rest []*Term
					var qs []*Term
					for _, c := range a.Args {
						if c.Op == "forall" {
							qs = append(qs, c)
						} else {
							rest = append(rest, c)
						}
					}
					for _, q := range qs {
						walk(q, And(guard, And(rest...)))
					}
				}
			}
		case "forall":
			if len(x.Bound) == 1 && x.Bound[0].Sort == SInt {
				for _, k := range idx {
					if k.Sort != SInt {
						continue
					}
					i2 := Implies(guard, Subst(x.Args[0], map[*Term]*Term{x.Bound[0]: k}))
					if !seen[i2] && !i2.IsTrue() && budget > 0 {
						seen[i2] = true
						out = append(out, i2)
						budget--
					}
				}
			}
		}
	}
	walk(t, tTrue)
	return out
}

type trivRec struct {
	name, fn string
	n        int
}

func kindOf(name string) string {
	switch {
	case strings.Contains(name, ".ensures#"):
		return "ensures"
	case strings.Contains(name, ".requires#"):
		return "requires-at-call"
	case strings.Contains(name, ".entry"):
		return "invariant-entry"
	case strings.Contains(name, ".preserved"):
		return "invariant-preserved"
	case strings.Contains(name, ".decreases"):
		return "decreases"
	case strings.Contains(name, ".overflow"):
		return "overflow"
	case strings.Contains(name, ".safety:"):
		return "safety"
	}
	return "other"
}

func contains(xs []string, x string) bool {
	for _, y := range xs {
		if y == x {
			return true
		}
	}
	return false
}

func trunc(s string, n int) string {
	if len(s) > n {
		return s[:n] + "…"
	}
	return s
}

func sanitize(s string) string {
	var sb strings.Builder
	for _, r := range s {
		if r >= 'a' && r <= 'z' || r >= 'A' && r <= 'Z' || r >= '0' && r <= '9' || r == '.' || r == '_' || r == '-' {
			sb.WriteRune(r)
		} else {
			sb.WriteByte('_')
		}
	}
	r := sb.String()
	if len(r) > 100 {
		r = r[:100]
	}
	return r
}
