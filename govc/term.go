package main

// Hash-consed SMT terms with simplifying constructors. Sorts are Int, Bool and
// (nested) arrays indexed by Int. Everything the executor manipulates is one of these.

import (
	"fmt"
	"math/big"
	"sort"
	"strings"
)

type Sort string

const (
	SInt  Sort = "Int"
	SBool Sort = "Bool"
)

func ArrSort(elem Sort) Sort { return Sort("(Array Int " + string(elem) + ")") }
func (s Sort) IsArr() bool   { return strings.HasPrefix(string(s), "(Array") }
func (s Sort) Elem() Sort {
	if !s.IsArr() {
		panic("Elem of non-array sort " + string(s))
	}
	return Sort(strings.TrimSuffix(strings.TrimPrefix(string(s), "(Array Int "), ")"))
}

type Term struct {
	Op    string // "int","bool","var","bvar","+","-","*","div","mod","<","<=","=","not","and","or","=>","ite","select","store","app","forall","exists","constarr"
	Args  []*Term
	Sort  Sort
	Int   *big.Int // for "int"
	B     bool     // for "bool"
	Name  string   // var / bvar / app name
	Bound []*Term  // quantifier bound variables (bvar terms)
	id    int
	hasBV bool // mentions a bound variable
	hasQ  bool // contains a quantifier
}

// knownNonNeg: terms that denote unknown (pre-existing or callee-allocated) references; the
// engine assumes 0 <= t wherever such a term is created (see leafAssume).
var knownNonNeg = map[*Term]bool{}

func isNonNeg(t *Term) bool {
	if knownNonNeg[t] {
		return true
	}
	if t.Op == "int" {
		return t.Int.Sign() >= 0
	}
	if t.Op == "ite" {
		return isNonNeg(t.Args[1]) && isNonNeg(t.Args[2])
	}
	return false
}

var (
	termTab  = map[string]*Term{}
	termSeq  int
	ufDecls  = map[string]string{} // name -> "(declare-fun name (Int Int) Int)"
	varDecls = map[string]Sort{}
	ufOrder  []string
	varOrder []string
)

func mk(t *Term) *Term {
	var sb strings.Builder
	sb.WriteString(t.Op)
	sb.WriteByte('|')
	sb.WriteString(string(t.Sort))
	sb.WriteByte('|')
	switch t.Op {
	case "int":
		sb.WriteString(t.Int.String())
	case "bool":
		if t.B {
			sb.WriteByte('1')
		} else {
			sb.WriteByte('0')
		}
	case "var", "bvar", "app":
		sb.WriteString(t.Name)
	}
	for _, a := range t.Args {
		fmt.Fprintf(&sb, ",%d", a.id)
		if a.hasBV {
			t.hasBV = true
		}
		if a.hasQ {
			t.hasQ = true
		}
	}
	for _, b := range t.Bound {
		fmt.Fprintf(&sb, ";%d", b.id)
	}
	if t.Op == "bvar" {
		t.hasBV = true
	}
	if t.Op == "forall" || t.Op == "exists" {
		t.hasQ = true
	}
	k := sb.String()
	if o, ok := termTab[k]; ok {
		return o
	}
	termSeq++
	t.id = termSeq
	termTab[k] = t
	return t
}

var (
	tTrue  = mk(&Term{Op: "bool", Sort: SBool, B: true})
	tFalse = mk(&Term{Op: "bool", Sort: SBool, B: false})
)

func IntC(v int64) *Term    { return mk(&Term{Op: "int", Sort: SInt, Int: big.NewInt(v)}) }
func BigC(v *big.Int) *Term { return mk(&Term{Op: "int", Sort: SInt, Int: new(big.Int).Set(v)}) }
func BoolC(b bool) *Term {
	if b {
		return tTrue
	}
	return tFalse
}
func (t *Term) IsConst() bool { return t.Op == "int" || t.Op == "bool" }
func (t *Term) IsTrue() bool  { return t == tTrue }
func (t *Term) IsFalse() bool { return t == tFalse }
func (t *Term) ConstInt() (int64, bool) {
	if t.Op == "int" && t.Int.IsInt64() {
		return t.Int.Int64(), true
	}
	return 0, false
}

var freshCtr = map[string]int{}

func smtName(s string) string {
	var sb strings.Builder
	for _, r := range s {
		switch {
		case r >= 'a' && r <= 'z', r >= 'A' && r <= 'Z', r >= '0' && r <= '9', r == '_', r == '.', r == '!', r == '$':
			sb.WriteRune(r)
		case r == '#':
			sb.WriteString("$h")
		case r == '*':
			sb.WriteString("$p")
		case r == '[':
			sb.WriteString("$l")
		case r == ']':
			sb.WriteString("$r")
		case r == '/':
			sb.WriteString("$s")
		case r == '|':
			sb.WriteString("$b")
		default:
			sb.WriteString("_")
		}
	}
	return sb.String()
}

// Var returns the variable with exactly this name (declared once).
func Var(name string, s Sort) *Term {
	name = smtName(name)
	if o, ok := varDecls[name]; ok {
		if o != s {
			panic(fmt.Sprintf("var %s redeclared %s vs %s", name, o, s))
		}
	} else {
		varDecls[name] = s
		varOrder = append(varOrder, name)
	}
	return mk(&Term{Op: "var", Sort: s, Name: name})
}

func Fresh(prefix string, s Sort) *Term {
	prefix = smtName(prefix)
	freshCtr[prefix]++
	return Var(fmt.Sprintf("%s!%d", prefix, freshCtr[prefix]), s)
}

func BVar(name string, s Sort) *Term {
	name = smtName(name)
	freshCtr["bv$"+name]++
	return mk(&Term{Op: "bvar", Sort: s, Name: fmt.Sprintf("%s?%d", name, freshCtr["bv$"+name])})
}

// BVarCanon: a bound variable whose name is determined by a key (the specification closure it
// belongs to), so that re-evaluating the same quantified clause yields the identical term — known
// facts then simplify syntactically instead of being re-proved modulo renaming by the solver.
func BVarCanon(name, key string, s Sort) *Term {
	return mk(&Term{Op: "bvar", Sort: s, Name: smtName(name) + "?c" + smtName(key)})
}

// App applies an uninterpreted function.
func App(name string, res Sort, args ...*Term) *Term {
	name = smtName(name)
	if _, ok := ufDecls[name]; !ok {
		var as []string
		for _, a := range args {
			as = append(as, string(a.Sort))
		}
		ufDecls[name] = fmt.Sprintf("(declare-fun %s (%s) %s)", name, strings.Join(as, " "), res)
		ufOrder = append(ufOrder, name)
	}
	if len(args) == 0 {
		return mk(&Term{Op: "app", Sort: res, Name: name})
	}
	return mk(&Term{Op: "app", Sort: res, Name: name, Args: args})
}

// linParts splits a term into its non-constant summands (nested "+" flattened) and a constant.
func linParts(t *Term, atoms *[]*Term, c *big.Int) {
	switch {
	case t.Op == "int":
		c.Add(c, t.Int)
	case t.Op == "+":
		for _, a := range t.Args {
			linParts(a, atoms, c)
		}
	default:
		*atoms = append(*atoms, t)
	}
}

// Add builds a canonical sum: non-constant summands sorted by term id, left-associated, the
// constant last — so that (x+1)+y, x+(y+1) and (y+x)+1 are the same term.
func Add(a, b *Term) *Term {
	if a.Op == "int" && b.Op == "int" {
		return BigC(new(big.Int).Add(a.Int, b.Int))
	}
	if a.Op == "int" && a.Int.Sign() == 0 {
		return b
	}
	if b.Op == "int" && b.Int.Sign() == 0 {
		return a
	}
	var atoms []*Term
	c := new(big.Int)
	linParts(a, &atoms, c)
	linParts(b, &atoms, c)
	sort.SliceStable(atoms, func(i, j int) bool { return atoms[i].id < atoms[j].id })
	var r *Term
	for _, x := range atoms {
		if r == nil {
			r = x
		} else {
			r = mk(&Term{Op: "+", Sort: SInt, Args: []*Term{r, x}})
		}
	}
	if r == nil {
		return BigC(c)
	}
	if c.Sign() != 0 {
		r = mk(&Term{Op: "+", Sort: SInt, Args: []*Term{r, BigC(c)}})
	}
	return r
}

// constDiff reports a - b when the two terms have the same non-constant summands.
func constDiff(a, b *Term) (*big.Int, bool) {
	if a.Sort != SInt || b.Sort != SInt {
		return nil, false
	}
	if a == b {
		return new(big.Int), true
	}
	var aa, ba []*Term
	ca, cb := new(big.Int), new(big.Int)
	linParts(a, &aa, ca)
	linParts(b, &ba, cb)
	if len(aa) != len(ba) {
		return nil, false
	}
	sort.SliceStable(aa, func(i, j int) bool { return aa[i].id < aa[j].id })
	sort.SliceStable(ba, func(i, j int) bool { return ba[i].id < ba[j].id })
	for i := range aa {
		if aa[i] != ba[i] {
			return nil, false
		}
	}
	return ca.Sub(ca, cb), true
}

func Neg(a *Term) *Term { return Sub(IntC(0), a) }
func Sub(a, b *Term) *Term {
	if a.Op == "int" && b.Op == "int" {
		return BigC(new(big.Int).Sub(a.Int, b.Int))
	}
	if b.Op == "int" {
		return Add(a, BigC(new(big.Int).Neg(b.Int)))
	}
	if a == b {
		return IntC(0)
	}
	if d, ok := constDiff(a, b); ok {
		return BigC(d)
	}
	return mk(&Term{Op: "-", Sort: SInt, Args: []*Term{a, b}})
}
func Mul(a, b *Term) *Term {
	if a.Op == "int" && b.Op == "int" {
		return BigC(new(big.Int).Mul(a.Int, b.Int))
	}
	for _, p := range [][2]*Term{{a, b}, {b, a}} {
		if p[0].Op == "int" {
			if p[0].Int.Sign() == 0 {
				return IntC(0)
			}
			if p[0].Int.Cmp(big.NewInt(1)) == 0 {
				return p[1]
			}
		}
	}
	if b.Op == "int" {
		a, b = b, a
	}
	return mk(&Term{Op: "*", Sort: SInt, Args: []*Term{a, b}})
}

// EDiv / EMod are SMT-LIB Euclidean div/mod.
func EDiv(a, b *Term) *Term {
	if a.Op == "int" && b.Op == "int" && b.Int.Sign() != 0 {
		q, m := new(big.Int), new(big.Int)
		q.DivMod(a.Int, b.Int, m)
		return BigC(q)
	}
	return mk(&Term{Op: "div", Sort: SInt, Args: []*Term{a, b}})
}
func EMod(a, b *Term) *Term {
	if a.Op == "int" && b.Op == "int" && b.Int.Sign() != 0 {
		q, m := new(big.Int), new(big.Int)
		q.DivMod(a.Int, b.Int, m)
		return BigC(m)
	}
	return mk(&Term{Op: "mod", Sort: SInt, Args: []*Term{a, b}})
}

// TQuo / TRem are Go's truncating division and remainder.
func TQuo(a, b *Term) *Term {
	if a.Op == "int" && b.Op == "int" && b.Int.Sign() != 0 {
		return BigC(new(big.Int).Quo(a.Int, b.Int))
	}
	return Ite(Le(IntC(0), a), EDiv(a, b), Neg(EDiv(Neg(a), b)))
}
func TRem(a, b *Term) *Term {
	if a.Op == "int" && b.Op == "int" && b.Int.Sign() != 0 {
		return BigC(new(big.Int).Rem(a.Int, b.Int))
	}
	return Ite(Le(IntC(0), a), EMod(a, b), Neg(EMod(Neg(a), b)))
}

func Lt(a, b *Term) *Term {
	if a.Op == "int" && b.Op == "int" {
		return BoolC(a.Int.Cmp(b.Int) < 0)
	}
	if a == b {
		return tFalse
	}
	if d, ok := constDiff(a, b); ok {
		return BoolC(d.Sign() < 0)
	}
	return mk(&Term{Op: "<", Sort: SBool, Args: []*Term{a, b}})
}
func Le(a, b *Term) *Term {
	if a.Op == "int" && b.Op == "int" {
		return BoolC(a.Int.Cmp(b.Int) <= 0)
	}
	if a == b {
		return tTrue
	}
	if d, ok := constDiff(a, b); ok {
		return BoolC(d.Sign() <= 0)
	}
	return mk(&Term{Op: "<=", Sort: SBool, Args: []*Term{a, b}})
}
func Gt(a, b *Term) *Term { return Lt(b, a) }
func Ge(a, b *Term) *Term { return Le(b, a) }

func Eq(a, b *Term) *Term {
	if a.Sort != b.Sort {
		panic(fmt.Sprintf("Eq sort mismatch %s vs %s: %s / %s", a.Sort, b.Sort, a, b))
	}
	if a == b {
		return tTrue
	}
	if a.Op == "int" && b.Op == "int" {
		return BoolC(a.Int.Cmp(b.Int) == 0)
	}
	if a.Op == "bool" && b.Op == "bool" {
		return BoolC(a.B == b.B)
	}
	if a.Sort == SInt && (a.Op == "+" || b.Op == "+") {
		if d, ok := constDiff(a, b); ok {
			return BoolC(d.Sign() == 0)
		}
	}
	if a.Sort == SBool {
		if a.Op == "bool" {
			a, b = b, a
		}
		if b == tTrue {
			return a
		}
		if b == tFalse {
			return Not(a)
		}
	}
	// ite(c, k1, k2) = k  with constants
	if b.IsConst() && a.Op == "ite" && a.Args[1].IsConst() && a.Args[2].IsConst() {
		return Ite(a.Args[0], Eq(a.Args[1], b), Eq(a.Args[2], b))
	}
	if a.IsConst() && b.Op == "ite" && b.Args[1].IsConst() && b.Args[2].IsConst() {
		return Ite(b.Args[0], Eq(b.Args[1], a), Eq(b.Args[2], a))
	}
	if a.id > b.id {
		a, b = b, a
	}
	return mk(&Term{Op: "=", Sort: SBool, Args: []*Term{a, b}})
}
func Ne(a, b *Term) *Term { return Not(Eq(a, b)) }

func Not(a *Term) *Term {
	switch {
	case a == tTrue:
		return tFalse
	case a == tFalse:
		return tTrue
	case a.Op == "not":
		return a.Args[0]
	case a.Op == "<":
		return Le(a.Args[1], a.Args[0])
	case a.Op == "<=":
		return Lt(a.Args[1], a.Args[0])
	}
	return mk(&Term{Op: "not", Sort: SBool, Args: []*Term{a}})
}

func And(ts ...*Term) *Term {
	var out []*Term
	seen := map[*Term]bool{}
	for _, t := range ts {
		if t == tFalse {
			return tFalse
		}
		if t == tTrue {
			continue
		}
		if t.Op == "and" {
			for _, u := range t.Args {
				if !seen[u] {
					seen[u] = true
					out = append(out, u)
				}
			}
			continue
		}
		if !seen[t] {
			seen[t] = true
			out = append(out, t)
		}
	}
	for _, t := range out {
		if seen[Not(t)] {
			return tFalse
		}
	}
	switch len(out) {
	case 0:
		return tTrue
	case 1:
		return out[0]
	}
	return mk(&Term{Op: "and", Sort: SBool, Args: out})
}

func Or(ts ...*Term) *Term {
	var out []*Term
	seen := map[*Term]bool{}
	for _, t := range ts {
		if t == tTrue {
			return tTrue
		}
		if t == tFalse {
			continue
		}
		if t.Op == "or" {
			for _, u := range t.Args {
				if !seen[u] {
					seen[u] = true
					out = append(out, u)
				}
			}
			continue
		}
		if !seen[t] {
			seen[t] = true
			out = append(out, t)
		}
	}
	for _, t := range out {
		if seen[Not(t)] {
			return tTrue
		}
	}
	switch len(out) {
	case 0:
		return tFalse
	case 1:
		return out[0]
	}
	return mk(&Term{Op: "or", Sort: SBool, Args: out})
}

func Implies(a, b *Term) *Term {
	if a == tTrue {
		return b
	}
	if a == tFalse || b == tTrue {
		return tTrue
	}
	if b == tFalse {
		return Not(a)
	}
	return mk(&Term{Op: "=>", Sort: SBool, Args: []*Term{a, b}})
}

func Ite(c, a, b *Term) *Term {
	if c == tTrue {
		return a
	}
	if c == tFalse {
		return b
	}
	if a == b {
		return a
	}
	if a.Sort != b.Sort {
		panic(fmt.Sprintf("Ite sort mismatch %s vs %s", a.Sort, b.Sort))
	}
	if a.Sort == SBool {
		if a == tTrue && b == tFalse {
			return c
		}
		if a == tFalse && b == tTrue {
			return Not(c)
		}
		if a == tTrue {
			return Or(c, b)
		}
		if a == tFalse {
			return And(Not(c), b)
		}
		if b == tTrue {
			return Or(Not(c), a)
		}
		if b == tFalse {
			return And(c, a)
		}
	}
	return mk(&Term{Op: "ite", Sort: a.Sort, Args: []*Term{c, a, b}})
}

func ConstArr(s Sort, v *Term) *Term {
	return mk(&Term{Op: "constarr", Sort: s, Args: []*Term{v}})
}

func Select(a, i *Term) *Term {
	if !a.Sort.IsArr() {
		panic("select on non-array " + a.String())
	}
	for {
		switch a.Op {
		case "store":
			if a.Args[1] == i {
				return a.Args[2]
			}
			if a.Args[1].Op == "int" && i.Op == "int" {
				a = a.Args[0]
				continue
			}
			if (isNonNeg(a.Args[1]) && i.Op == "int" && i.Int.Sign() < 0) || (isNonNeg(i) && a.Args[1].Op == "int" && a.Args[1].Int.Sign() < 0) {
				a = a.Args[0]
				continue
			}
			if a.Args[1].Op == "+" || i.Op == "+" {
				if d, ok := constDiff(a.Args[1], i); ok && d.Sign() != 0 {
					a = a.Args[0]
					continue
				}
			}
		case "constarr":
			return a.Args[0]
		case "ite":
			// select(ite(c,a1,a2), i)
			return Ite(a.Args[0], Select(a.Args[1], i), Select(a.Args[2], i))
		}
		break
	}
	return mk(&Term{Op: "select", Sort: a.Sort.Elem(), Args: []*Term{a, i}})
}

func Store(a, i, v *Term) *Term {
	if a.Sort.Elem() != v.Sort {
		panic(fmt.Sprintf("store sort mismatch: array %s value %s", a.Sort, v.Sort))
	}
	if a.Op == "store" && a.Args[1] == i {
		return Store(a.Args[0], i, v)
	}
	return mk(&Term{Op: "store", Sort: a.Sort, Args: []*Term{a, i, v}})
}

func Forall(bound []*Term, body *Term) *Term {
	if body.IsConst() || !body.hasBV {
		return body
	}
	return mk(&Term{Op: "forall", Sort: SBool, Args: []*Term{body}, Bound: bound})
}
func Exists(bound []*Term, body *Term) *Term {
	if body.IsConst() || !body.hasBV {
		return body
	}
	return mk(&Term{Op: "exists", Sort: SBool, Args: []*Term{body}, Bound: bound})
}

// ---------------------------------------------------------------- substitution

// Subst rewrites t replacing keys of m (pointer identity) and re-simplifying.
func Subst(t *Term, m map[*Term]*Term) *Term {
	if len(m) == 0 {
		return t
	}
	cache := map[*Term]*Term{}
	var rec func(t *Term) *Term
	rec = func(t *Term) *Term {
		if r, ok := m[t]; ok {
			return r
		}
		if len(t.Args) == 0 {
			return t
		}
		if r, ok := cache[t]; ok {
			return r
		}
		args := make([]*Term, len(t.Args))
		changed := false
		for i, a := range t.Args {
			args[i] = rec(a)
			if args[i] != a {
				changed = true
			}
		}
		r := t
		if changed {
			r = rebuild(t, args)
		}
		cache[t] = r
		return r
	}
	return rec(t)
}

func rebuild(t *Term, a []*Term) *Term {
	switch t.Op {
	case "+":
		return Add(a[0], a[1])
	case "-":
		return Sub(a[0], a[1])
	case "*":
		return Mul(a[0], a[1])
	case "div":
		return EDiv(a[0], a[1])
	case "mod":
		return EMod(a[0], a[1])
	case "<":
		return Lt(a[0], a[1])
	case "<=":
		return Le(a[0], a[1])
	case "=":
		return Eq(a[0], a[1])
	case "not":
		return Not(a[0])
	case "and":
		return And(a...)
	case "or":
		return Or(a...)
	case "=>":
		return Implies(a[0], a[1])
	case "ite":
		return Ite(a[0], a[1], a[2])
	case "select":
		return Select(a[0], a[1])
	case "store":
		return Store(a[0], a[1], a[2])
	case "constarr":
		return ConstArr(t.Sort, a[0])
	case "app":
		return mk(&Term{Op: "app", Sort: t.Sort, Name: t.Name, Args: a})
	case "forall":
		return Forall(t.Bound, a[0])
	case "exists":
		return Exists(t.Bound, a[0])
	}
	panic("rebuild: " + t.Op)
}

// ---------------------------------------------------------------- printing

func (t *Term) String() string {
	var sb strings.Builder
	printTerm(&sb, t, nil)
	return sb.String()
}

func intLit(v *big.Int) string {
	if v.Sign() < 0 {
		return "(- " + new(big.Int).Neg(v).String() + ")"
	}
	return v.String()
}

func printTerm(sb *strings.Builder, t *Term, named map[*Term]string) {
	if n, ok := named[t]; ok {
		sb.WriteString(n)
		return
	}
	switch t.Op {
	case "int":
		sb.WriteString(intLit(t.Int))
	case "bool":
		if t.B {
			sb.WriteString("true")
		} else {
			sb.WriteString("false")
		}
	case "var", "bvar":
		sb.WriteString(t.Name)
	case "app":
		if len(t.Args) == 0 {
			sb.WriteString(t.Name)
			return
		}
		sb.WriteString("(" + t.Name)
		for _, a := range t.Args {
			sb.WriteByte(' ')
			printTerm(sb, a, named)
		}
		sb.WriteByte(')')
	case "constarr":
		sb.WriteString("((as const " + string(t.Sort) + ") ")
		printTerm(sb, t.Args[0], named)
		sb.WriteByte(')')
	case "forall", "exists":
		sb.WriteString("(" + t.Op + " (")
		for _, b := range t.Bound {
			sb.WriteString("(" + b.Name + " " + string(b.Sort) + ")")
		}
		sb.WriteString(") ")
		printTerm(sb, t.Args[0], named)
		sb.WriteByte(')')
	default:
		sb.WriteString("(" + t.Op)
		for _, a := range t.Args {
			sb.WriteByte(' ')
			printTerm(sb, a, named)
		}
		sb.WriteByte(')')
	}
}

// collect gathers free vars and UF names used by the given terms, and reference counts.
func collect(ts []*Term) (vars []string, ufs []string, order []*Term, refs map[*Term]int) {
	refs = map[*Term]int{}
	vs := map[string]bool{}
	us := map[string]bool{}
	var rec func(t *Term)
	rec = func(t *Term) {
		refs[t]++
		if refs[t] > 1 {
			return
		}
		switch t.Op {
		case "var":
			vs[t.Name] = true
		case "app":
			us[t.Name] = true
		}
		for _, a := range t.Args {
			rec(a)
		}
		order = append(order, t)
	}
	for _, t := range ts {
		rec(t)
	}
	for _, n := range varOrder {
		if vs[n] {
			vars = append(vars, n)
		}
	}
	for _, n := range ufOrder {
		if us[n] {
			ufs = append(ufs, n)
		}
	}
	return
}

// Script renders an SMT-LIB script asserting all of `asserts`; extra is appended verbatim
// after the declarations (spec prelude axioms).
func Script(asserts []*Term, prelude string, getValues []*Term) string {
	var sb strings.Builder
	all := append([]*Term{}, asserts...)
	all = append(all, getValues...)
	vars, ufs, order, refs := collect(all)
	sb.WriteString("(set-option :produce-models true)\n(set-logic ALL)\n")
	for _, n := range ufs {
		sb.WriteString(ufDecls[n] + "\n")
	}
	for _, n := range vars {
		fmt.Fprintf(&sb, "(declare-fun %s () %s)\n", n, varDecls[n])
	}
	if prelude != "" {
		sb.WriteString(prelude)
		if !strings.HasSuffix(prelude, "\n") {
			sb.WriteByte('\n')
		}
	}
	named := map[*Term]string{}
	for _, t := range order {
		if refs[t] > 1 && len(t.Args) > 0 && !t.hasBV {
			var b strings.Builder
			printTerm(&b, t, named)
			n := fmt.Sprintf("t$%d", t.id)
			fmt.Fprintf(&sb, "(define-fun %s () %s %s)\n", n, t.Sort, b.String())
			named[t] = n
		}
	}
	for _, a := range asserts {
		var b strings.Builder
		printTerm(&b, a, named)
		fmt.Fprintf(&sb, "(assert %s)\n", b.String())
	}
	sb.WriteString("(check-sat)\n")
	if len(getValues) > 0 {
		sb.WriteString("(get-value (")
		for i, g := range getValues {
			if i > 0 {
				sb.WriteByte(' ')
			}
			printTerm(&sb, g, named)
		}
		sb.WriteString("))\n")
	}
	return sb.String()
}

// FreeVars lists the free variables of a term in declaration order.
func FreeVars(ts ...*Term) []*Term {
	vars, _, _, _ := collect(ts)
	var out []*Term
	for _, n := range vars {
		out = append(out, mk(&Term{Op: "var", Sort: varDecls[n], Name: n}))
	}
	return out
}

func sortedKeys[V any](m map[string]V) []string {
	var ks []string
	for k := range m {
		ks = append(ks, k)
	}
	sort.Strings(ks)
	return ks
}
