package main

// Contract files: /repo/<pkgdir>/zz_contracts_verif.go, build tag `verif`, comment-only.
// Each `//@` block is mechanically translated into Go "ghost" functions in an overlay file
// (never written into /repo) that is type-checked with the package and compiled to SSA, so
// contract expressions are evaluated by the same symbolic executor as the code.

import (
	"bytes"
	"fmt"
	"go/ast"
	"go/build"
	"go/parser"
	"go/printer"
	"go/token"
	"os"
	"path/filepath"
	"regexp"
	"sort"
	"strings"
)

type Clause struct {
	Kind string // requires ensures invariant decreases
	Text string
	Line int
	Gen  string // generated function name
	// for invariants/decreases: parameter names in order, and the declaration position
	// ("line:col" in the source file) of each local they bind to ("" = by name)
	Params []string
}

type LoopContract struct {
	Key        string // "range t.Fields", "for i < n", or "#k"
	Invariants []*Clause
	Decreases  *Clause
	Bounded    int
	Missing    bool // no loop of the function matches the key any more
	Line       int
	Stmt       ast.Stmt // resolved
}

type GhostSet struct{ Kind, Addr, Val string }

type FuncContract struct {
	PkgDir   string
	Recv     string // "" | "T" | "*T"
	Name     string
	File     string
	Line     int
	Pure     bool
	Trusted  bool // contract assumed at call sites, body not verified
	Lemma    bool // a ghost function (defined in the contract file) under contract
	Requires []*Clause
	Ensures  []*Clause
	Assigns  []string
	HasAssigns bool
	// ghost bookkeeping of an abstracted (trusted) callee: at every call the ghost counter `Kind`
	// at address Addr is set to Val (both evaluated in the state before the call), so that a
	// caller's contract can say whether, how often and in which order abstracted callees ran
	GhostSets []GhostSet
	Loops    []*LoopContract
	Opts     map[string]string
	Decl     *ast.FuncDecl
	DeclFile *ast.File
	// generated signature pieces
	ParamNames  []string
	ResultNames []string
}

func (fc *FuncContract) Key() string {
	if fc.Recv != "" {
		return strings.TrimPrefix(fc.Recv, "*") + "." + fc.Name
	}
	return fc.Name
}

type PkgContracts struct {
	Dir     string // absolute
	Rel     string // relative to repo
	Name    string // package name
	Funcs   []*FuncContract
	Raw     []string // verbatim Go lines (spec functions)
	Imports []string // extra import specs, e.g. `"compiler/internal/types"`
	File    string
	Fset    *token.FileSet
	Files   []*ast.File
	GenSrc  string
	Scan    map[string]int // assumption scan counts
	Uninterp map[string]bool
}

var clauseKW = map[string]bool{"func": true, "requires": true, "ensures": true, "pure": true, "trusted": true,
	"assigns": true, "ghostset": true, "loop": true, "invariant": true, "decreases": true, "bounded": true, "import": true,
	"opt": true, "|": true, "note": true}

func findContractFiles(repo string) []string {
	var out []string
	filepath.Walk(repo, func(p string, info os.FileInfo, err error) error {
		if err != nil {
			return nil
		}
		if info.IsDir() {
			n := info.Name()
			if n == ".git" || n == "qbe" || n == "node_modules" {
				return filepath.SkipDir
			}
			return nil
		}
		if info.Name() == "zz_contracts_verif.go" {
			out = append(out, p)
		}
		return nil
	})
	sort.Strings(out)
	return out
}

func parseContractFile(repo, path string) (*PkgContracts, error) {
	data, err := os.ReadFile(path)
	if err != nil {
		return nil, err
	}
	pc := &PkgContracts{Dir: filepath.Dir(path), File: path, Scan: map[string]int{}}
	pc.Rel, _ = filepath.Rel(repo, pc.Dir)
	lines := strings.Split(string(data), "\n")
	var cur *FuncContract
	var curLoop *LoopContract
	var last *Clause
	var lastAssigns bool
	for i, raw := range lines {
		ln := i + 1
		s := strings.TrimSpace(raw)
		if strings.HasPrefix(s, "package ") {
			pc.Name = strings.TrimSpace(strings.TrimPrefix(s, "package "))
			continue
		}
		if !strings.HasPrefix(s, "//@") {
			if s != "" && !strings.HasPrefix(s, "//") {
				return nil, fmt.Errorf("%s:%d: contract files must be comment-only (found %q)", path, ln, s)
			}
			continue
		}
		body := strings.TrimPrefix(s, "//@")
		if tb := strings.TrimLeft(body, " "); strings.HasPrefix(tb, "|") {
			pc.Raw = append(pc.Raw, strings.TrimPrefix(strings.TrimPrefix(tb, "|"), " "))
			last = nil
			continue
		}
		body = strings.TrimSpace(body)
		if body == "" {
			continue
		}
		kw := body
		rest := ""
		if sp := strings.IndexAny(body, " \t"); sp > 0 {
			kw, rest = body[:sp], strings.TrimSpace(body[sp:])
		}
		if !clauseKW[kw] {
			// continuation
			if last != nil {
				last.Text += " " + body
			} else if lastAssigns && cur != nil {
				cur.Assigns = append(cur.Assigns, splitTop(body, ',')...)
			} else {
				return nil, fmt.Errorf("%s:%d: unknown contract keyword %q", path, ln, kw)
			}
			continue
		}
		lastAssigns = false
		switch kw {
		case "import":
			pc.Imports = append(pc.Imports, rest)
			last = nil
		case "func":
			cur = &FuncContract{PkgDir: pc.Dir, File: path, Line: ln, Opts: map[string]string{}}
			curLoop = nil
			last = nil
			r := strings.TrimSpace(rest)
			if strings.HasPrefix(r, "(") {
				end := strings.Index(r, ")")
				recv := strings.TrimSpace(r[1:end])
				// allow "(d *DataLayout)" or "(*DataLayout)"
				fs := strings.Fields(recv)
				cur.Recv = fs[len(fs)-1]
				r = strings.TrimSpace(r[end+1:])
			}
			cur.Name = strings.Fields(r)[0]
			pc.Funcs = append(pc.Funcs, cur)
		case "note":
			last = nil
		default:
			if cur == nil {
				return nil, fmt.Errorf("%s:%d: clause outside func block", path, ln)
			}
			switch kw {
			case "pure":
				cur.Pure = true
				last = nil
			case "trusted":
				cur.Trusted = true
				pc.Scan["trusted"]++
				last = nil
			case "opt":
				kv := strings.SplitN(rest, "=", 2)
				if len(kv) == 2 {
					cur.Opts[strings.TrimSpace(kv[0])] = strings.TrimSpace(kv[1])
				} else {
					cur.Opts[rest] = "1"
				}
				last = nil
			case "assigns":
				cur.HasAssigns = true
				if rest != "" && rest != "nothing" {
					cur.Assigns = append(cur.Assigns, splitTop(rest, ',')...)
				}
				lastAssigns = true
				last = nil
			case "ghostset":
				// ghostset "<kind>" <address expression> = <int expression>
				m := regexp.MustCompile(`^"([^"]+)"\s+(.+?)\s+=\s+(.+)$`).FindStringSubmatch(rest)
				if m == nil {
					return nil, fmt.Errorf("%s:%d: ghostset needs: \"kind\" <address> = <value>", path, ln)
				}
				cur.GhostSets = append(cur.GhostSets, GhostSet{m[1], m[2], m[3]})
				last = nil
			case "requires":
				c := &Clause{Kind: kw, Text: rest, Line: ln}
				cur.Requires = append(cur.Requires, c)
				last = c
				curLoop = nil
			case "ensures":
				c := &Clause{Kind: kw, Text: rest, Line: ln}
				cur.Ensures = append(cur.Ensures, c)
				last = c
				curLoop = nil
			case "loop":
				curLoop = &LoopContract{Key: rest, Line: ln}
				cur.Loops = append(cur.Loops, curLoop)
				last = nil
			case "invariant":
				if curLoop == nil {
					return nil, fmt.Errorf("%s:%d: invariant outside loop block", path, ln)
				}
				c := &Clause{Kind: kw, Text: rest, Line: ln}
				curLoop.Invariants = append(curLoop.Invariants, c)
				last = c
			case "decreases":
				if curLoop == nil {
					return nil, fmt.Errorf("%s:%d: decreases outside loop block", path, ln)
				}
				c := &Clause{Kind: kw, Text: rest, Line: ln}
				curLoop.Decreases = c
				last = c
			case "bounded":
				pc.Scan["bounded"]++
				if curLoop != nil {
					fmt.Sscanf(rest, "%d", &curLoop.Bounded)
				} else {
					cur.Opts["bounded"] = rest
				}
				last = nil
			}
		}
	}
	return pc, nil
}

// splitTop splits at sep outside parentheses/brackets/braces/strings.
func splitTop(s string, sep byte) []string {
	var out []string
	depth := 0
	inStr := byte(0)
	start := 0
	for i := 0; i < len(s); i++ {
		c := s[i]
		if inStr != 0 {
			if c == '\\' {
				i++
			} else if c == inStr {
				inStr = 0
			}
			continue
		}
		switch c {
		case '"', '\'', '`':
			inStr = c
		case '(', '[', '{':
			depth++
		case ')', ']', '}':
			depth--
		default:
			if c == sep && depth == 0 {
				out = append(out, strings.TrimSpace(s[start:i]))
				start = i + 1
			}
		}
	}
	if t := strings.TrimSpace(s[start:]); t != "" {
		out = append(out, t)
	}
	return out
}

// desugar turns `a ==> b` (lowest precedence, right associative, also inside parentheses
// and call arguments) into `(!(a) || (b))`, and `forall(i, lo, hi, body)` /
// `exists(i, lo, hi, body)` into closure form.
func desugar(s string) string {
	s = desugarImplies(s)
	return s
}

func desugarImplies(s string) string {
	// Recursively process bracketed groups first.
	var sb strings.Builder
	i := 0
	for i < len(s) {
		c := s[i]
		if c == '"' || c == '\'' || c == '`' {
			j := i + 1
			for j < len(s) && s[j] != c {
				if s[j] == '\\' {
					j++
				}
				j++
			}
			sb.WriteString(s[i:min(j+1, len(s))])
			i = j + 1
			continue
		}
		if c == '(' || c == '[' || c == '{' {
			closer := map[byte]byte{'(': ')', '[': ']', '{': '}'}[c]
			depth := 0
			j := i
			inStr := byte(0)
			for ; j < len(s); j++ {
				d := s[j]
				if inStr != 0 {
					if d == '\\' {
						j++
					} else if d == inStr {
						inStr = 0
					}
					continue
				}
				if d == '"' || d == '\'' || d == '`' {
					inStr = d
				} else if d == '(' || d == '[' || d == '{' {
					depth++
				} else if d == ')' || d == ']' || d == '}' {
					depth--
					if depth == 0 {
						break
					}
				}
			}
			if j >= len(s) {
				sb.WriteString(s[i:])
				break
			}
			inner := s[i+1 : j]
			// split inner by top-level commas, desugar each
			parts := splitTopKeep(inner, ',')
			for k, p := range parts {
				if k > 0 {
					sb.WriteByte(',')
				}
				if k == 0 {
					sb.WriteByte(c)
				}
				sb.WriteString(desugarImplies(p))
			}
			if len(parts) == 0 {
				sb.WriteByte(c)
			}
			sb.WriteByte(closer)
			i = j + 1
			continue
		}
		sb.WriteByte(c)
		i++
	}
	t := sb.String()
	// now split at top-level ==> (brackets already processed, but still skip them)
	idx := topIndex(t, "==>")
	if idx < 0 {
		return t
	}
	if ts := strings.TrimLeft(t, " \t"); strings.HasPrefix(ts, "return ") {
		// body of a function literal: `return a ==> b`
		return " return " + desugarImplies(strings.TrimPrefix(ts, "return "))
	}
	lhs := strings.TrimSpace(t[:idx])
	rhs := strings.TrimSpace(desugarImplies(t[idx+3:]))
	return "(!(" + lhs + ") || (" + rhs + "))"
}

func splitTopKeep(s string, sep byte) []string {
	var out []string
	depth := 0
	inStr := byte(0)
	start := 0
	for i := 0; i < len(s); i++ {
		c := s[i]
		if inStr != 0 {
			if c == '\\' {
				i++
			} else if c == inStr {
				inStr = 0
			}
			continue
		}
		switch c {
		case '"', '\'', '`':
			inStr = c
		case '(', '[', '{':
			depth++
		case ')', ']', '}':
			depth--
		default:
			if c == sep && depth == 0 {
				out = append(out, s[start:i])
				start = i + 1
			}
		}
	}
	out = append(out, s[start:])
	return out
}

func topIndex(s, pat string) int {
	depth := 0
	inStr := byte(0)
	for i := 0; i+len(pat) <= len(s); i++ {
		c := s[i]
		if inStr != 0 {
			if c == '\\' {
				i++
			} else if c == inStr {
				inStr = 0
			}
			continue
		}
		switch c {
		case '"', '\'', '`':
			inStr = c
		case '(', '[', '{':
			depth++
		case ')', ']', '}':
			depth--
		}
		if depth == 0 && strings.HasPrefix(s[i:], pat) {
			return i
		}
	}
	return -1
}

// rewriteQuant rewrites forall(i, lo, hi, body) into forall(lo, hi, func(i int) bool { return body }).
func rewriteQuant(e ast.Expr) ast.Expr {
	var rw func(n ast.Node) bool
	rw = func(n ast.Node) bool {
		ce, ok := n.(*ast.CallExpr)
		if !ok {
			return true
		}
		id, ok := ce.Fun.(*ast.Ident)
		if !ok || (id.Name != "forall" && id.Name != "exists") || len(ce.Args) != 4 {
			return true
		}
		v, ok := ce.Args[0].(*ast.Ident)
		if !ok {
			return true
		}
		body := ce.Args[3]
		fl := &ast.FuncLit{
			Type: &ast.FuncType{
				Params:  &ast.FieldList{List: []*ast.Field{{Names: []*ast.Ident{ast.NewIdent(v.Name)}, Type: ast.NewIdent("int")}}},
				Results: &ast.FieldList{List: []*ast.Field{{Type: ast.NewIdent("bool")}}},
			},
			Body: &ast.BlockStmt{List: []ast.Stmt{&ast.ReturnStmt{Results: []ast.Expr{body}}}},
		}
		ce.Args = []ast.Expr{ce.Args[1], ce.Args[2], fl}
		return true
	}
	ast.Inspect(e, rw)
	return e
}

func exprString(e ast.Node) string {
	var buf bytes.Buffer
	printer.Fprint(&buf, token.NewFileSet(), e)
	return buf.String()
}

func parseClauseExpr(text string) (ast.Expr, error) {
	e, err := parser.ParseExpr(desugar(text))
	if err != nil {
		return nil, err
	}
	return rewriteQuant(e), nil
}

// loadSyntax parses the non-test Go files of the package directory that the build would use
// (CGO off, no `verif` tag).
func (pc *PkgContracts) loadSyntax() error {
	ctx := build.Default
	ctx.CgoEnabled = false
	pc.Fset = token.NewFileSet()
	ents, err := os.ReadDir(pc.Dir)
	if err != nil {
		return err
	}
	for _, e := range ents {
		n := e.Name()
		if e.IsDir() || !strings.HasSuffix(n, ".go") || strings.HasSuffix(n, "_test.go") {
			continue
		}
		if ok, _ := ctx.MatchFile(pc.Dir, n); !ok {
			continue
		}
		f, err := parser.ParseFile(pc.Fset, filepath.Join(pc.Dir, n), nil, parser.ParseComments)
		if err != nil {
			return err
		}
		pc.Files = append(pc.Files, f)
		if pc.Name == "" {
			pc.Name = f.Name.Name
		}
	}
	return nil
}

func recvString(fd *ast.FuncDecl) string {
	if fd.Recv == nil || len(fd.Recv.List) == 0 {
		return ""
	}
	t := fd.Recv.List[0].Type
	if st, ok := t.(*ast.StarExpr); ok {
		return "*" + exprString(st.X)
	}
	return exprString(t)
}

func (pc *PkgContracts) resolveDecls() error {
	// lemmas: ghost functions written in `//@ |` lines may themselves carry a contract; they are
	// verified like real functions (they call the real code) and are how a property that relates
	// several calls is stated over the contracts of the functions involved.
	var rawFile *ast.File
	if len(pc.Raw) > 0 {
		src := "package " + pc.Name + "\n" + strings.Join(pc.Raw, "\n") + "\n"
		if f, err := parser.ParseFile(pc.Fset, filepath.Join(pc.Dir, "zz_verif_raw.go"), src, 0); err == nil {
			rawFile = f
		}
	}
	for _, fc := range pc.Funcs {
		if rawFile != nil && fc.Recv == "" {
			for _, d := range rawFile.Decls {
				if fd, ok := d.(*ast.FuncDecl); ok && fd.Name.Name == fc.Name && fd.Recv == nil && fd.Body != nil {
					fc.Decl, fc.DeclFile = fd, rawFile
					fc.Lemma = true
				}
			}
		}
		for _, f := range pc.Files {
			for _, d := range f.Decls {
				fd, ok := d.(*ast.FuncDecl)
				if !ok || fd.Name.Name != fc.Name {
					continue
				}
				if strings.TrimPrefix(recvString(fd), "*") != strings.TrimPrefix(fc.Recv, "*") {
					continue
				}
				fc.Decl, fc.DeclFile = fd, f
			}
		}
		if fc.Decl == nil {
			return &MissingTarget{fmt.Sprintf("%s: contract target %s.%s not found in %s", fc.File, fc.Recv, fc.Name, pc.Rel)}
		}
		if fc.Decl.Type.TypeParams != nil {
			return fmt.Errorf("%s: generic function %s not supported", fc.File, fc.Name)
		}
		if err := fc.resolveLoops(pc.Fset); err != nil {
			return err
		}
	}
	return nil
}

type MissingTarget struct{ msg string }

func (m *MissingTarget) Error() string { return m.msg }

var wsRe = regexp.MustCompile(`\s+`)

func loopHeaderText(s ast.Stmt) string {
	switch l := s.(type) {
	case *ast.RangeStmt:
		return "range " + exprString(l.X)
	case *ast.ForStmt:
		if l.Cond != nil {
			return "for " + exprString(l.Cond)
		}
		return "for"
	}
	return ""
}

func (fc *FuncContract) resolveLoops(fset *token.FileSet) error {
	if fc.Decl.Body == nil {
		return nil
	}
	var loops []ast.Stmt
	ast.Inspect(fc.Decl.Body, func(n ast.Node) bool {
		switch n.(type) {
		case *ast.FuncLit:
			return false
		case *ast.RangeStmt, *ast.ForStmt:
			loops = append(loops, n.(ast.Stmt))
		}
		return true
	})
	for _, lc := range fc.Loops {
		key := wsRe.ReplaceAllString(strings.TrimSpace(lc.Key), " ")
		ord := 0
		if i := strings.LastIndex(key, " #"); i >= 0 {
			fmt.Sscanf(key[i+2:], "%d", &ord)
			key = key[:i]
		}
		if strings.HasPrefix(key, "#") {
			fmt.Sscanf(key[1:], "%d", &ord)
			if ord >= len(loops) {
				lc.Missing = true
				continue
			}
			lc.Stmt = loops[ord]
			continue
		}
		var matches []ast.Stmt
		for _, l := range loops {
			if wsRe.ReplaceAllString(loopHeaderText(l), " ") == key {
				matches = append(matches, l)
			}
		}
		if ord >= len(matches) {
			// the loop the clauses were written for is gone (code changed): the function is still
			// verified against its pre/postconditions; the clauses are reported as not generated
			lc.Missing = true
			continue
		}
		lc.Stmt = matches[ord]
	}
	return nil
}

// LocalTypes is filled by pass 1 (types of locals mentioned in loop invariants):
// key "<pkgRel>|<funcKey>|<name>" -> (type string, decl position "line:col")
type localInfo struct {
	Type string
	Pos  string
}

func identNames(e ast.Expr) []string {
	seen := map[string]bool{}
	var out []string
	ast.Inspect(e, func(n ast.Node) bool {
		switch x := n.(type) {
		case *ast.SelectorExpr:
			ast.Inspect(x.X, func(m ast.Node) bool {
				if id, ok := m.(*ast.Ident); ok && !seen[id.Name] {
					seen[id.Name] = true
					out = append(out, id.Name)
				}
				return true
			})
			return false
		case *ast.Ident:
			if !seen[x.Name] {
				seen[x.Name] = true
				out = append(out, x.Name)
			}
		}
		return true
	})
	return out
}

// generate produces the overlay file source. locals gives types of function locals
// (from pass 1); it may be nil when no contract has loop clauses.
func (pc *PkgContracts) generate(locals map[string]localInfo) (string, error) {
	var body strings.Builder
	fileImports := map[string]string{} // name -> path spec
	addImportsOf := func(f *ast.File) {
		for _, im := range f.Imports {
			name := ""
			if im.Name != nil {
				name = im.Name.Name
			} else {
				p := strings.Trim(im.Path.Value, `"`)
				name = p[strings.LastIndex(p, "/")+1:]
			}
			if name == "_" || name == "." {
				continue
			}
			if _, ok := fileImports[name]; !ok {
				fileImports[name] = im.Path.Value
			}
		}
	}
	for _, im := range pc.Imports {
		fs := strings.Fields(im)
		p := strings.Trim(fs[len(fs)-1], `"`)
		name := p[strings.LastIndex(p, "/")+1:]
		if len(fs) == 2 {
			name = fs[0]
		}
		fileImports[name] = `"` + p + `"`
	}
	body.WriteString(`
func old[T any](x T) T { return x }
func allrefs[T any](f func(p *T) bool) bool { return true }
func allold[T any](f func(p *T) bool) bool { return true }
func allstrings(f func(s string) bool) bool { return true }
func iterpos(s string) int { return 0 }
func floatfinite(f float64) bool { return true }
func ghostctr[T any](kind string, p *T) int { return 0 }
func lockacq[T any](p *T) int  { return 0 }
func lockwacq[T any](p *T) int { return 0 }
func lockheld[T any](p *T) int { return 0 }
func pow2(k int) int { return 1 << uint(k) }
func bigval(x *verifbig.Int) int { return int(x.Int64()) }
func forall(lo, hi int, f func(i int) bool) bool {
	for i := lo; i < hi; i++ {
		if !f(i) {
			return false
		}
	}
	return true
}
func exists(lo, hi int, f func(i int) bool) bool {
	for i := lo; i < hi; i++ {
		if f(i) {
			return true
		}
	}
	return false
}
`)
	pc.Uninterp = map[string]bool{}
	for _, l := range pc.Raw {
		if strings.HasPrefix(l, "func ") && !strings.Contains(l, "{") {
			// bodyless declaration = uninterpreted specification function
			name := strings.TrimSpace(l[5:strings.Index(l, "(")])
			pc.Uninterp[name] = true
			l += ` { panic("uninterpreted specification function") }`
		}
		body.WriteString(l + "\n")
	}
	for _, fc := range pc.Funcs {
		addImportsOf(fc.DeclFile)
		fd := fc.Decl
		var params []string
		fc.ParamNames = nil
		fc.ResultNames = nil
		blank := 0
		addField := func(fl *ast.Field, dflt string, isResult bool) {
			ts := exprString(fl.Type)
			if strings.HasPrefix(ts, "...") {
				ts = "[]" + ts[3:]
			}
			names := fl.Names
			if len(names) == 0 {
				names = []*ast.Ident{ast.NewIdent(dflt)}
			}
			for _, n := range names {
				nm := n.Name
				if nm == "_" {
					blank++
					nm = fmt.Sprintf("blank%d", blank)
				}
				params = append(params, nm+" "+ts)
				if isResult {
					fc.ResultNames = append(fc.ResultNames, nm)
				} else {
					fc.ParamNames = append(fc.ParamNames, nm)
				}
			}
		}
		if fd.Recv != nil && len(fd.Recv.List) > 0 {
			addField(fd.Recv.List[0], "recv", false)
		}
		for i, fl := range fd.Type.Params.List {
			addField(fl, fmt.Sprintf("arg%d", i), false)
		}
		preParams := strings.Join(params, ", ")
		nres := 0
		if fd.Type.Results != nil {
			for _, fl := range fd.Type.Results.List {
				if len(fl.Names) == 0 {
					nres++
				} else {
					nres += len(fl.Names)
				}
			}
			k := 0
			for _, fl := range fd.Type.Results.List {
				d := "result"
				if nres > 1 {
					k++
					d = fmt.Sprintf("result%d", k)
				}
				if len(fl.Names) > 1 {
					k += len(fl.Names) - 1
				}
				addField(fl, d, true)
			}
		}
		postParams := strings.Join(params, ", ")
		base := "vc_" + strings.ReplaceAll(fc.Key(), ".", "_")
		emit := func(c *Clause, name, sig string) error {
			e, err := parseClauseExpr(c.Text)
			if err != nil {
				return fmt.Errorf("%s:%d: %v (in %q)", fc.File, c.Line, err, c.Text)
			}
			c.Gen = name
			res := "bool"
			if c.Kind == "decreases" {
				res = "int"
			}
			fmt.Fprintf(&body, "func %s(%s) %s { return %s }\n", name, sig, res, exprString(e))
			return nil
		}
		for i, c := range fc.Requires {
			if err := emit(c, fmt.Sprintf("%s_req%d", base, i), preParams); err != nil {
				return "", err
			}
		}
		for i, c := range fc.Ensures {
			if err := emit(c, fmt.Sprintf("%s_ens%d", base, i), postParams); err != nil {
				return "", err
			}
		}
		for i, a := range fc.Assigns {
			a = strings.TrimSpace(a)
			if a == "heap" || strings.HasPrefix(a, "prefix ") {
				continue
			}
			expr := "&(" + a + ")"
			if strings.HasPrefix(a, "elems(") || strings.HasPrefix(a, "entries(") {
				expr = a[strings.Index(a, "(")+1 : len(a)-1]
			}
			if _, err := parser.ParseExpr(expr); err != nil {
				return "", fmt.Errorf("%s: assigns %q: %v", fc.File, a, err)
			}
			fmt.Fprintf(&body, "func %s_asg%d(%s) any { return %s }\n", base, i, preParams, expr)
		}
		for i, g := range fc.GhostSets {
			if _, err := parser.ParseExpr(g.Addr); err != nil {
				return "", fmt.Errorf("%s: ghostset address %q: %v", fc.File, g.Addr, err)
			}
			ve, err := parseClauseExpr(g.Val)
			if err != nil {
				return "", fmt.Errorf("%s: ghostset value %q: %v", fc.File, g.Val, err)
			}
			fmt.Fprintf(&body, "func %s_gsa%d(%s) any { return %s }\n", base, i, preParams, g.Addr)
			fmt.Fprintf(&body, "func %s_gsv%d(%s) int { return %s }\n", base, i, preParams, exprString(ve))
		}
		for li, lc := range fc.Loops {
			if lc.Missing {
				continue
			}
			cls := append([]*Clause{}, lc.Invariants...)
			if lc.Decreases != nil {
				cls = append(cls, lc.Decreases)
			}
			for ci, c := range cls {
				e, err := parseClauseExpr(c.Text)
				if err != nil {
					return "", fmt.Errorf("%s:%d: %v", fc.File, c.Line, err)
				}
				var ps []string
				c.Params = nil
				for _, nm := range identNames(e) {
					if nm == "ii" || nm == "oi" {
						// ii: number of elements a range loop has completed; oi: index of the element the
						// innermost ENCLOSING range loop is working on
						ps = append(ps, nm+" int")
						c.Params = append(c.Params, nm)
						continue
					}
					li, ok := locals[pc.Rel+"|"+fc.Key()+"|"+nm]
					if !ok {
						continue
					}
					ps = append(ps, nm+" "+li.Type)
					c.Params = append(c.Params, nm+"@"+li.Pos)
				}
				name := fmt.Sprintf("%s_loop%d_c%d", base, li, ci)
				if err := emit(c, name, strings.Join(ps, ", ")); err != nil {
					return "", err
				}
			}
		}
	}
	text := body.String()
	var hdr strings.Builder
	fmt.Fprintf(&hdr, "package %s\n\nimport verifbig \"math/big\"\n", pc.Name)
	noStrings := regexp.MustCompile("\"(?:[^\"\\\\]|\\\\.)*\"").ReplaceAllString(text, "\"\"")
	for _, name := range sortedKeys(fileImports) {
		re := regexp.MustCompile(`\b` + regexp.QuoteMeta(name) + `\.`)
		if re.MatchString(noStrings) {
			fmt.Fprintf(&hdr, "import %s %s\n", name, fileImports[name])
		}
	}
	pc.GenSrc = hdr.String() + text
	return pc.GenSrc, nil
}
