package main

// Frame obligations.  A function verified under a contract with an `assigns` clause must leave
// every object that existed at entry (references >= 1, and the package-level variables) as it
// found it, except at the declared locations: callers are checked against the clause, so the
// clause itself is an obligation on the body, discharged at every return and at every loop
// back edge (the latter justifies assuming the same fact for the arrays a loop head havocs).
// Objects allocated during the execution have negative references and are outside the frame.

import (
	"fmt"
	"go/token"
	"go/types"
	"strings"
)

type frameCover struct {
	name string
	keys []*Term
}

type frameSpec struct {
	all      bool
	prefixes []string
	covers   []frameCover
}

func (fs *frameSpec) coversPrefix(p string) bool {
	if fs.all {
		return true
	}
	for _, q := range fs.prefixes {
		if strings.HasPrefix(p, q) {
			return true
		}
	}
	return false
}

func ghostArray(name string) bool {
	return strings.HasPrefix(name, "ghost|") || strings.HasPrefix(name, "sync|")
}

// frameSpecOf evaluates the assigns clause of the function under verification in its entry state.
func (e *Engine) frameSpecOf(s *State, fc *FuncContract, args []Val) *frameSpec {
	fs := &frameSpec{}
	pre := &State{heap: e.preHeap.clone(), cells: map[cellKey]Val{}, pc: append([]*Term{}, s.pc...),
		eqs: map[*Term]*Term{}, normMemo: map[*Term]*Term{}, iters: map[int64]*iterState{}}
	for k, v := range s.eqs {
		pre.eqs[k] = v
	}
	for i, a := range fc.Assigns {
		a = strings.TrimSpace(a)
		switch {
		case a == "heap":
			fs.all = true
		case strings.HasPrefix(a, "prefix "):
			fs.prefixes = append(fs.prefixes, strings.Trim(strings.TrimSpace(a[7:]), `"`))
		default:
			fn := e.genFn(fc, fmt.Sprintf("vc_%s_asg%d", strings.ReplaceAll(fc.Key(), ".", "_"), i))
			iv := e.evalSpecVal(pre, fn, args)
			tagc, ok := pre.concretize(iv[0]).ConstInt()
			if !ok || tagc == 0 {
				engineErr("assigns %q: cannot resolve", a)
			}
			rt := typeByID[tagc]
			v := e.unbox(pre, rt, iv[1])
			switch t := rt.Underlying().(type) {
			case *types.Pointer:
				l := e.resolvePtr(pre, v[0], t.Elem())
				if l.IsCell {
					continue
				}
				for _, lf := range leavesOf(t.Elem()) {
					fs.covers = append(fs.covers, frameCover{l.Prefix + lf.Path, l.Keys})
				}
			case *types.Slice:
				prefix := "[]" + typeName(t.Elem()) + "|"
				for _, lf := range leavesOf(t.Elem()) {
					fs.covers = append(fs.covers, frameCover{prefix + lf.Path, []*Term{v[0]}})
				}
			case *types.Map:
				p := mapPrefix(t)
				fs.covers = append(fs.covers, frameCover{p + "has", []*Term{v[0]}}, frameCover{p + "len", []*Term{v[0]}})
				for _, lf := range leavesOf(t.Elem()) {
					fs.covers = append(fs.covers, frameCover{p + "val." + lf.Path, []*Term{v[0]}})
				}
			default:
				engineErr("assigns %q: unsupported form", a)
			}
		}
	}
	return fs
}

func selectNested(a *Term, keys []*Term) *Term {
	for _, k := range keys {
		a = Select(a, k)
	}
	return a
}

// frameFact: the array `now` agrees with the entry array on every old object outside the clause.
func (e *Engine) frameFact(fs *frameSpec, name string, now *Term) *Term {
	pre := e.preHeap.get(name, now.Sort)
	if now == pre {
		return tTrue
	}
	x := now
	for _, c := range fs.covers {
		if c.name == name && len(c.keys) > 0 {
			x = storeNested(x, c.keys, selectNested(pre, c.keys))
		}
	}
	bv := BVarCanon("p", "frame$"+name, SInt)
	dom := []*Term{Le(IntC(1), bv)}
	for k, id := range locIDs {
		if strings.HasPrefix(k, "global:") {
			dom = append(dom, Eq(bv, IntC(id)))
		}
	}
	return Forall([]*Term{bv}, Implies(Or(dom...), Eq(Select(x, bv), Select(pre, bv))))
}

// frameCheck emits the frame obligation for the state s of the function under verification.
func (e *Engine) frameCheck(s *State, where token.Pos) {
	fc := e.TopFC
	if fc == nil || !fc.HasAssigns || fc.Trusted || e.Mode != ModeVerify {
		return
	}
	if e.topFrame == nil {
		e.topFrame = e.frameSpecOf(s, fc, e.entryArgs)
	}
	fs := e.topFrame
	if fs.all {
		return
	}
	name := shortFn(e.TopFn) + ".frame"
	// writes the engine only knows by prefix (callee write sets) must be inside a declared prefix
	for _, h := range s.heap.havocs[len(e.preHeap.havocs):] {
		if h.framed || fs.coversPrefix(h.prefix) || ghostArray(h.prefix) {
			continue
		}
		e.Obls = append(e.Obls, &Obligation{Name: name, Kind: "frame", Where: e.pos(where) + " (a call may write " + h.prefix + "*, outside the assigns clause)",
			PC: append([]*Term{}, s.pc...), Goal: tFalse, Func: e.TopFn.String()})
		return
	}
	e.drainFramed(s)
	for _, n := range s.heap.names() {
		if ghostArray(n) || fs.coversPrefix(n) {
			continue
		}
		e.oblige(s, name, "frame", where, e.frameFact(fs, n, s.heap.arr[n]))
	}
}

// drainFramed assumes the frame fact for arrays created since a loop head havocked them.
func (e *Engine) drainFramed(s *State) {
	if e.topFrame == nil || len(s.heap.newFramed) == 0 {
		return
	}
	names := s.heap.newFramed
	s.heap.newFramed = nil
	for _, n := range names {
		if ghostArray(n) || e.topFrame.coversPrefix(n) {
			continue
		}
		if v, ok := s.heap.framedSym[n]; ok {
			s.assume(e.frameFact(e.topFrame, n, v))
		}
	}
}
