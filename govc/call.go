package main

import (
	"fmt"
	"os"
	"sort"
	"go/token"
	"go/types"
	"strings"

	"golang.org/x/tools/go/ssa"
)

// doCall evaluates a call. It returns true when control was transferred (a frame was pushed
// or the path ended); otherwise the result (if any) has been bound to res.
func (e *Engine) doCall(st *State, fr *Frame, res ssa.Value, c *ssa.CallCommon, at ssa.Instruction) bool {
	var args []Val
	if c.IsInvoke() {
		recv := e.get(st, fr, c.Value)
		tag := st.norm(recv[0])
		it := c.Value.Type().Underlying().(*types.Interface)
		if !tag.IsConst() {
			impls := e.implementers(it)
			if len(impls) == 0 || len(impls) > 24 || !e.inModuleIface(c.Value.Type()) {
				// open world: abstract the call
				for _, a := range c.Args {
					args = append(args, e.get(st, fr, a))
				}
				e.nilCheck(st, tag, c.Pos(), "invoke")
				if (c.Method.Name() == "Error" || c.Method.Name() == "String") && len(c.Args) == 0 && !e.inModuleIface(c.Value.Type()) {
					// textual rendering of a foreign value: a deterministic text, no writes
					e.bind(fr, res, e.ufResults(st, "text$"+c.Method.Name(), c.Signature(), []Val{recv}))
					return false
				}
				if e.inModuleIface(c.Value.Type()) && len(impls) > 0 {
					// too many implementers to fork: abstract the call, but havoc only what some
					// implementer may write (union of their type-based modification sets)
					m := map[string]bool{}
					e.callMods(c, m, map[*ssa.Function]bool{})
					if len(m) == 0 {
						// no implementer writes anything: a deterministic reader (same receiver and
						// arguments, same result)
						e.Havocked["invoke "+c.Method.FullName()+" (pure: no implementer writes memory)"]++
						e.bind(fr, res, e.ufResults(st, "invoke$"+c.Method.FullName(), c.Signature(), append([]Val{recv}, args...)))
						return false
					}
					if !m["*"] {
						e.Havocked["invoke "+c.Method.FullName()+" (frame: union of implementers' writes)"]++
						for p := range m {
							st.heap.havocPrefix(p)
						}
						var results []Val
						sig := c.Signature()
						for i := 0; i < sig.Results().Len(); i++ {
							v, as := freshVal("ret$"+c.Method.Name(), sig.Results().At(i).Type())
							for _, a := range as {
								e.fact(st, a)
							}
							results = append(results, v)
						}
						e.bind(fr, res, results)
						return false
					}
				}
				e.havocCall(st, fr, res, "invoke "+c.Method.FullName(), c.Signature(), false, append([]Val{recv}, args...))
				return false
			}
			// every implementer declared pure: one deterministic function symbol of receiver and
			// arguments instead of one path per dynamic type
			allPure := os.Getenv("GOVC_NOPUREINVOKE") == ""
			for _, im := range impls {
				if !allPure {
					break
				}
				sel := e.W.Prog.MethodSets.MethodSet(im).Lookup(c.Method.Pkg(), c.Method.Name())
				var f *ssa.Function
				if sel != nil {
					f = e.W.Prog.MethodValue(sel)
				}
				if f == nil || e.W.ByFunc[f] == nil || !e.W.ByFunc[f].Pure {
					allPure = false
					break
				}
			}
			if !allPure && e.inModuleIface(c.Value.Type()) && os.Getenv("GOVC_NOWFINVOKE") == "" {
				// no implementer writes memory (type-based write sets all empty): also a deterministic reader
				m := map[string]bool{}
				e.callMods(c, m, map[*ssa.Function]bool{})
				if len(m) == 0 {
					allPure = true
				}
			}
			if allPure {
				for _, a := range c.Args {
					args = append(args, e.get(st, fr, a))
				}
				e.nilCheck(st, tag, c.Pos(), "invoke")
				e.Havocked["invoke "+c.Method.FullName()+" (pure in every implementer: one function symbol)"]++
				rs := e.ufResults(st, "invoke$"+c.Method.FullName(), c.Signature(), append([]Val{recv}, args...))
				// tie the symbol to each implementer that has a postcondition: for that dynamic
				// type the result is the implementer's (pure) function, with its contract
				for _, im := range impls {
					sel := e.W.Prog.MethodSets.MethodSet(im).Lookup(c.Method.Pkg(), c.Method.Name())
					if sel == nil {
						continue
					}
					f := e.W.Prog.MethodValue(sel)
					fc := e.W.ByFunc[f]
					if f == nil || fc == nil || !fc.Pure {
						continue
					}
					guard := Eq(tag, IntC(typeID(im)))
					sub := st.clone()
					sub.assume(guard)
					if _, isPtr := im.Underlying().(*types.Pointer); isPtr {
						sub.assume(Ne(recv[1], IntC(0)))
					}
					cargs := append([]Val{e.unbox(sub, im, recv[1])}, args...)
					irs := e.ufResults(sub, "pure$"+shortFn(f), f.Signature, cargs)
					var a, b Val
					for _, r := range rs {
						a = append(a, r...)
					}
					for _, r := range irs {
						b = append(b, r...)
					}
					if len(a) != len(b) {
						continue
					}
					e.fact(st, Implies(guard, valEq(a, b)))
					if len(fc.Ensures) == 0 || fc.Opts["opaque"] != "" {
						continue
					}
					pre := sub.heap.clone()
					savedMode := e.Mode
					e.Mode = ModeSpec
					for _, cl := range fc.Ensures {
						t := e.evalClause(sub, fc, cl, append(append([]Val{}, cargs...), irs...), pre)
						e.Mode = savedMode
						e.fact(st, Implies(And(guard, Ne(recv[1], IntC(0))), t))
						e.Mode = ModeSpec
					}
					e.Mode = savedMode
				}
				e.bind(fr, res, rs)
				return false
			}
			alts := []*Term{Eq(tag, IntC(0))}
			var none []*Term
			for _, im := range impls {
				alts = append(alts, Eq(tag, IntC(typeID(im))))
				none = append(none, Ne(tag, IntC(typeID(im))))
			}
			_ = none
			panic(&forkRequest{alts})
		}
		id, _ := tag.ConstInt()
		if id == 0 {
			e.nilCheck(st, tag, c.Pos(), "invoke")
			st.dead = true
			return true
		}
		dyn := typeByID[id]
		if _, isPtr := dyn.Underlying().(*types.Pointer); isPtr && e.inModuleIface(c.Value.Type()) {
			e.AssumedDep["no typed-nil pointer inside a module interface value"]++
			e.fact(st, Ne(recv[1], IntC(0)))
		}
		ms := e.W.Prog.MethodSets.MethodSet(dyn)
		sel := ms.Lookup(c.Method.Pkg(), c.Method.Name())
		if sel == nil {
			engineErr("method %s not found on %s", c.Method.Name(), dyn)
		}
		callee := e.W.Prog.MethodValue(sel)
		if callee == nil {
			engineErr("no method value for %s.%s", dyn, c.Method.Name())
		}
		args = append(args, e.unbox(st, dyn, recv[1]))
		for _, a := range c.Args {
			args = append(args, e.get(st, fr, a))
		}
		return e.callFunction(st, fr, res, callee, args, at)
	}
	for _, a := range c.Args {
		args = append(args, e.get(st, fr, a))
	}
	switch v := c.Value.(type) {
	case *ssa.Builtin:
		r := e.builtin(st, fr, v, c, args, at)
		if st.dead {
			return true
		}
		if res != nil {
			fr.env[res] = r
		}
		return false
	case *ssa.Function:
		return e.callFunction(st, fr, res, v, args, at)
	case *ssa.MakeClosure:
		fn := v.Fn.(*ssa.Function)
		for _, b := range v.Bindings {
			args = append(args, e.get(st, fr, b))
		}
		return e.callFunction(st, fr, res, fn, args, at)
	default:
		fv := st.concretize(e.get(st, fr, c.Value)[0])
		if id, ok := fv.ConstInt(); ok {
			if id == 0 {
				e.nilCheck(st, fv, c.Pos(), "call")
				st.dead = true
				return true
			}
			if cl := e.closures[id]; cl != nil {
				return e.callFunction(st, fr, res, cl.fn, append(args, cl.bindings...), at)
			}
		}
		e.havocCall(st, fr, res, "func value", c.Signature(), false, args)
		return false
	}
}

func (e *Engine) inModuleIface(t types.Type) bool {
	if n, ok := t.(*types.Named); ok && n.Obj().Pkg() != nil {
		return strings.HasPrefix(n.Obj().Pkg().Path(), e.W.ModPath)
	}
	return false
}

func fnSize(fn *ssa.Function) int {
	n := 0
	for _, b := range fn.Blocks {
		n += len(b.Instrs)
	}
	return n
}

var stdInline = map[string]bool{"strings": true, "unicode": true, "unicode/utf8": true, "math/bits": true, "slices": true,
	"maps": true, "cmp": true, "path": true, "sort": false, "bytes": true, "errors": false, "internal/stringslite": true,
	"internal/bytealg": false}

var stringsInline = map[string]bool{"HasPrefix": true, "HasSuffix": true, "Compare": true, "EqualFold": false}

func (e *Engine) bind(fr *Frame, res ssa.Value, results []Val) {
	if res == nil {
		return
	}
	var flat Val
	for _, r := range results {
		flat = append(flat, r...)
	}
	fr.env[res] = flat
}

func (e *Engine) callFunction(st *State, fr *Frame, res ssa.Value, callee *ssa.Function, args []Val, at ssa.Instruction) bool {
	name := callee.Name()
	// spec builtins
	if callee.Pkg != nil || callee.Origin() != nil {
		switch {
		case callee.Origin() != nil && callee.Origin().Name() == "old":
			if res != nil {
				fr.env[res] = e.evalOld(st, fr, at)
			}
			return false
		case callee.Origin() != nil && callee.Origin().Name() == "ghostctr":
			kind, ok := strOf(st.norm(args[0][0]))
			if !ok {
				engineErr("ghostctr: the counter kind must be a string literal")
			}
			if res != nil {
				fr.env[res] = Val{st.norm(Select(st.heap.get("ghost|"+kind, ArrSort(SInt)), args[1][0]))}
			}
			return false
		case callee.Origin() != nil && (callee.Origin().Name() == "lockacq" || callee.Origin().Name() == "lockwacq" || callee.Origin().Name() == "lockheld"):
			name := map[string]string{"lockacq": "sync|$acq", "lockwacq": "sync|$wacq", "lockheld": "sync|$held"}[callee.Origin().Name()]
			if res != nil {
				fr.env[res] = Val{st.norm(Select(st.heap.get(name, ArrSort(SInt)), args[0][0]))}
			}
			return false
		case callee.Origin() != nil && callee.Origin().Name() == "allold":
			// all objects of the type that existed before the function under verification was
			// entered (references >= 1; objects allocated by the execution have negative ids)
			fv := st.concretize(args[0][0])
			id, _ := fv.ConstInt()
			cl := e.closures[id]
			if cl == nil {
				engineErr("allold: body is not a closure literal")
			}
			bv := BVarCanon("p", cl.fn.String(), SInt)
			body := e.evalSpecFn(st, cl.fn, append([]Val{{bv}}, cl.bindings...), []*Term{Le(IntC(1), bv)})
			if res != nil {
				fr.env[res] = Val{Forall([]*Term{bv}, Implies(Le(IntC(1), bv), body))}
			}
			return false
		case callee.Origin() != nil && callee.Origin().Name() == "allrefs":
			fv := st.concretize(args[0][0])
			id, _ := fv.ConstInt()
			cl := e.closures[id]
			if cl == nil {
				engineErr("allrefs: body is not a closure literal")
			}
			bv := BVar("p", SInt)
			// all references of the type: every non-nil value (pre-existing objects are positive,
			// objects allocated by this execution negative; reads under quantifiers carry no sign fact)
			dom := Ne(bv, IntC(0))
			if os.Getenv("GOVC_ALLREFSPOS") != "" {
				dom = Le(IntC(1), bv)
			}
			body := e.evalSpecFn(st, cl.fn, append([]Val{{bv}}, cl.bindings...), []*Term{dom})
			if res != nil {
				fr.env[res] = Val{Forall([]*Term{bv}, Implies(dom, body))}
			}
			return false
		case name == "floatfinite" && strings.HasSuffix(e.W.Fset.Position(callee.Pos()).Filename, "zz_verif_gen.go"):
			if res != nil {
				fr.env[res] = Val{App("float_finite", SBool, args[0][0])}
			}
			return false
		case name == "iterpos" && strings.HasSuffix(e.W.Fset.Position(callee.Pos()).Filename, "zz_verif_gen.go"):
			// byte position of the live range-over-string iterator on this string
			var found *Term
			for _, it := range st.iters {
				if it.kind == "strsym" && it.sref == st.norm(args[0][0]) {
					found = it.posT
				}
			}
			if found == nil {
				engineErr("iterpos: no live iterator over the given string")
			}
			if res != nil {
				fr.env[res] = Val{found}
			}
			return false
		case name == "allstrings" && strings.HasSuffix(e.W.Fset.Position(callee.Pos()).Filename, "zz_verif_gen.go"):
			fv := st.concretize(args[0][0])
			id, _ := fv.ConstInt()
			cl := e.closures[id]
			if cl == nil {
				engineErr("allstrings: body is not a closure literal")
			}
			// every string value (codes read under a quantifier carry no sign fact, so the
			// quantifier ranges over all codes)
			bv := BVarCanon("s", cl.fn.String(), SInt)
			body := e.evalSpecFn(st, cl.fn, append([]Val{{bv}}, cl.bindings...), nil)
			if res != nil {
				fr.env[res] = Val{Forall([]*Term{bv}, body)}
			}
			return false
		case (name == "pow2" || name == "bigval") && strings.HasSuffix(e.W.Fset.Position(callee.Pos()).Filename, "zz_verif_gen.go"):
			var r *Term
			if name == "pow2" {
				k := st.norm(args[0][0])
				if c, ok := k.ConstInt(); ok && c >= 0 && c <= 4096 {
					r = pow2(c)
				} else {
					r = App("pow2", SInt, k)
				}
			} else {
				r = bigGet(st, args[0][0])
			}
			if res != nil {
				fr.env[res] = Val{r}
			}
			return false
		case (name == "forall" || name == "exists") && strings.HasSuffix(e.W.Fset.Position(callee.Pos()).Filename, "zz_verif_gen.go"):
			r := e.quantifier(st, fr, name, args)
			if res != nil {
				fr.env[res] = Val{r}
			}
			return false
		}
	}
	_, hasModel := modelTable[callee.String()]
	if !hasModel && (callee.Name() == "String" || callee.Name() == "Error") && callee.Signature.Params().Len() == 0 && callee.Signature.Results().Len() == 1 && callee.Signature.Recv() != nil {
		// textual renderings are never executed: a deterministic uninterpreted string
		e.bind(fr, res, e.ufResults(st, "text$"+shortFn(callee), callee.Signature, args[:1]))
		return false
	}
	if callee.Pkg != nil && e.isGhostRecursive(callee) {
		// a recursive specification function: an uninterpreted function symbol plus, at every
		// call, one unfolding of its definition at the call's arguments (nested recursive calls of
		// that unfolding stay folded). Totality of the definition is assumed.
		cargs := args[:len(callee.Params)]
		// A definition that reads the heap denotes a function of the heap too: the symbol is
		// applied to the current contents of the heap arrays its definition (transitively) reads,
		// so that two applications are related by congruence only across states in which those
		// arrays are the same terms (a store or a havoc in between yields a different application).
		var body Val
		if _, done := e.recReads[callee]; !done && !e.prepass[callee] {
			// which heap arrays can one unfolding read, whatever the arguments? A throw-away
			// unfolding at unconstrained arguments, with the heap recording every array it touches
			// (computed once per function: the set does not depend on the state)
			e.prepass[callee] = true
			savedUnf, savedMode, savedTouch := e.unfolding[callee], e.Mode, st.heap.touch
			e.unfolding[callee] = true
			touched := map[string]Sort{}
			st.heap.touch = &touched
			var gen []Val
			for _, p := range callee.Params {
				v, _ := freshVal("recpre$"+p.Name(), p.Type())
				gen = append(gen, v)
			}
			e.evalSpecFnVal(st, callee, gen)
			st.heap.touch = savedTouch
			e.unfolding[callee], e.Mode = savedUnf, savedMode
			e.prepass[callee] = false
			var rr []recRead
			for k, srt := range touched {
				if !ghostSetArrays[k] {
					rr = append(rr, recRead{k, srt})
				}
			}
			sort.Slice(rr, func(i, j int) bool { return rr[i].name < rr[j].name })
			e.recReads[callee] = rr
		}
		if !e.unfolding[callee] {
			e.unfolding[callee] = true
			savedMode := e.Mode
			body = e.evalSpecFnVal(st, callee, cargs)
			e.Mode = savedMode
			e.unfolding[callee] = false
		}
		uargs := append([]Val{}, cargs...)
		uname := "rec$" + shortFn(callee)
		if e.prepass[callee] {
			uname = "recpre$" + shortFn(callee) // inside the throw-away unfolding: a symbol of its own
		}
		for _, r := range e.recReads[callee] {
			uargs = append(uargs, Val{st.norm(st.heap.get(r.name, r.sort))})
		}
		rs := e.ufResults(st, uname, callee.Signature, uargs)
		if body != nil {
			var flat Val
			for _, r := range rs {
				flat = append(flat, r...)
			}
			for k := range flat {
				e.fact(st, Eq(flat[k], body[k]))
			}
		}
		e.bind(fr, res, rs)
		return false
	}
	if callee.Pkg != nil && e.isUninterp(callee) {
		e.bind(fr, res, e.ufResults(st, "spec$"+shortFn(callee), callee.Signature, args[:len(callee.Params)]))
		return false
	}
	if r, ok := e.model(st, fr, callee, args, at); ok {
		if st.dead {
			return true
		}
		e.bind(fr, res, r)
		return false
	}
	concreteArgs := func() bool {
		for _, a := range args {
			for _, l := range a {
				if !st.norm(l).IsConst() {
					return false
				}
			}
		}
		return len(args) > 0
	}
	if fc := e.W.ByFunc[callee]; fc != nil && !(fc.Pure && len(fc.Ensures) == 0 && len(fc.Requires) == 0 && len(callee.Blocks) > 0 && concreteArgs()) {
		// a function's own body is verified against its contract; every call (including
		// recursive ones) uses the contract.  (A reader declared `pure` without clauses is a
		// deterministic function of its arguments: on constant arguments it is simply executed.)
		results := e.applySummary(st, fr, callee, fc, args, at)
		if st.dead {
			return true
		}
		e.bind(fr, res, results)
		return false
	}
	inMod := callee.Pkg != nil && strings.HasPrefix(callee.Pkg.Pkg.Path(), e.W.ModPath)
	inStd := callee.Pkg != nil && stdInline[callee.Pkg.Pkg.Path()]
	if inStd && (callee.Pkg.Pkg.Path() == "strings" || callee.Pkg.Pkg.Path() == "bytes") && !stringsInline[callee.Name()] {
		// functions that loop over their (symbolic) argument are abstracted as pure functions
		inStd = false
	}
	if callee.Pkg == nil && callee.Origin() != nil && callee.Origin().Pkg != nil {
		p := callee.Origin().Pkg.Pkg.Path()
		inMod = strings.HasPrefix(p, e.W.ModPath)
		inStd = stdInline[p]
	}
	if callee.Pkg == nil && callee.Parent() != nil {
		// anonymous function
		root := callee
		for root.Parent() != nil {
			root = root.Parent()
		}
		if root.Pkg != nil {
			inMod = strings.HasPrefix(root.Pkg.Pkg.Path(), e.W.ModPath)
		}
	}
	if callee.Synthetic != "" && len(callee.Blocks) > 0 {
		inMod = true // wrappers / bound methods: execute
	}
	if len(callee.Blocks) > 0 && (inMod || inStd) {
		onStack := 0
		for _, f := range st.frames {
			if f.fn == callee {
				onStack++
			}
		}
		limit := e.inlineCap
		if e.Mode == ModeSpec {
			limit = 100000
		}
		if onStack == 0 && fnSize(callee) <= limit && len(st.frames) < 24 {
			e.Inlined[shortFn(callee)]++
			if trace {
				fmt.Fprintf(os.Stderr, "%s-> %s (paths %d, steps %d, pc %d)\n", strings.Repeat(" ", len(st.frames)), shortFn(callee), e.Paths, st.steps, len(st.pc))
			}
			nf := e.newFrame(callee, args)
			// free variables of closures
			for i, fv := range callee.FreeVars {
				nf.env[fv] = args[len(callee.Params)+i]
			}
			nf.callInstr = at
			nf.resultTo = res
			st.frames = append(st.frames, nf)
			return true
		}
	}
	if e.Mode == ModeSpec {
		// deterministic abstraction
		e.bind(fr, res, e.ufResults(st, "fn$"+shortFn(callee), callee.Signature, args))
		e.Havocked[shortFn(callee)+" (uninterpreted in spec)"]++
		return false
	}
	if !pureStd(callee) && !inMod {
		// external callee: it can write only memory reachable (by type) from its arguments
		if pf, all := extFrame(callee.Signature); !all {
			e.Havocked[shortFn(callee)]++
			for _, p := range pf {
				st.heap.havocPrefix(p)
			}
			var results []Val
			for i := 0; i < callee.Signature.Results().Len(); i++ {
				v, as := freshVal("ret$"+shortFn(callee), callee.Signature.Results().At(i).Type())
				for _, a := range as {
					e.fact(st, a)
				}
				results = append(results, v)
			}
			e.bind(fr, res, results)
			return false
		}
	}
	e.havocCall(st, fr, res, shortFn(callee), callee.Signature, pureStd(callee), args)
	return false
}

// extFrame computes the heap-array prefixes reachable by type from the parameters (and
// receiver) of an external function; all=true when an interface, function or channel is
// reachable (anything may then be written).
func extFrame(sig *types.Signature) (prefixes []string, all bool) {
	seen := map[types.Type]bool{}
	set := map[string]bool{}
	var walk func(t types.Type)
	walk = func(t types.Type) {
		if all || seen[t] {
			return
		}
		seen[t] = true
		switch u := t.Underlying().(type) {
		case *types.Basic:
			if u.Kind() == types.UnsafePointer {
				all = true
			}
		case *types.Pointer:
			set[typeName(u.Elem())+"|"] = true
			walk(u.Elem())
		case *types.Slice:
			set["[]"+typeName(u.Elem())+"|"] = true
			walk(u.Elem())
		case *types.Array:
			walk(u.Elem())
		case *types.Struct:
			for i := 0; i < u.NumFields(); i++ {
				walk(u.Field(i).Type())
			}
		case *types.Map:
			set[mapPrefix(u)] = true
			walk(u.Key())
			walk(u.Elem())
		default:
			all = true
		}
	}
	if sig.Recv() != nil {
		walk(sig.Recv().Type())
	}
	for i := 0; i < sig.Params().Len(); i++ {
		walk(sig.Params().At(i).Type())
	}
	for p := range set {
		prefixes = append(prefixes, p)
	}
	sort.Strings(prefixes)
	return prefixes, all
}

func pureStd(fn *ssa.Function) bool {
	if fn.Pkg == nil {
		return false
	}
	switch fn.Pkg.Pkg.Path() {
	case "strings", "strconv", "unicode", "unicode/utf8", "math", "math/bits", "path", "path/filepath", "errors", "fmt", "regexp", "sort":
		n := fn.Name()
		if fn.Pkg.Pkg.Path() == "fmt" {
			return strings.HasPrefix(n, "Sprint") || n == "Errorf"
		}
		if fn.Pkg.Pkg.Path() == "sort" {
			return false
		}
		return true
	}
	return false
}

func (e *Engine) ufResults(st *State, name string, sig *types.Signature, args []Val) []Val {
	var flat []*Term
	for _, a := range args {
		flat = append(flat, a...)
	}
	var out []Val
	for i := 0; i < sig.Results().Len(); i++ {
		t := sig.Results().At(i).Type()
		ls := leavesOf(t)
		v := make(Val, len(ls))
		for j, lf := range ls {
			v[j] = App(fmt.Sprintf("%s$%d.%d", name, i, j), lf.Sort, flat...)
			for _, a := range leafAssume(v[j], lf) {
				if !v[j].hasBV {
					e.fact(st, a)
				}
			}
		}
		out = append(out, v)
	}
	return out
}

// havocCall abstracts a call: fresh results; unless the callee is known not to write memory,
// the whole heap is havocked.
func (e *Engine) havocCall(st *State, fr *Frame, res ssa.Value, name string, sig *types.Signature, pure bool, args []Val) {
	e.Havocked[name]++
	var results []Val
	if pure {
		results = e.ufResults(st, "fn$"+name, sig, args)
	} else {
		st.heap.havocPrefix("*")
		for i := 0; i < sig.Results().Len(); i++ {
			v, as := freshVal("ret$"+name, sig.Results().At(i).Type())
			for _, a := range as {
				e.fact(st, a)
			}
			results = append(results, v)
		}
	}
	e.bind(fr, res, results)
}

func (e *Engine) doReturn(st *State, fr *Frame, results []Val) {
	if len(st.frames) == 1 {
		e.onReturn(st, fr, results)
		st.dead = true
		return
	}
	st.frames = st.frames[:len(st.frames)-1]
	caller := st.top()
	// drop callee cells
	for k := range st.cells {
		if k.frame == fr.id {
			delete(st.cells, k)
		}
	}
	e.bind(caller, fr.resultTo, results)
	if _, isRD := fr.callInstr.(*ssa.RunDefers); isRD {
		return // stay on RunDefers
	}
	caller.ip++
}

// ---------------------------------------------------------------- builtins

func (e *Engine) builtin(st *State, fr *Frame, b *ssa.Builtin, c *ssa.CallCommon, args []Val, at ssa.Instruction) Val {
	switch b.Name() {
	case "len":
		switch t := c.Args[0].Type().Underlying().(type) {
		case *types.Slice:
			return Val{args[0][2]}
		case *types.Basic:
			return Val{strLen(args[0][0])}
		case *types.Map:
			return Val{e.mapLen(st, t, args[0][0])}
		case *types.Array:
			return Val{IntC(t.Len())}
		case *types.Pointer:
			return Val{IntC(t.Elem().Underlying().(*types.Array).Len())}
		}
	case "cap":
		switch t := c.Args[0].Type().Underlying().(type) {
		case *types.Slice:
			r := Fresh("cap", SInt)
			e.fact(st, Le(args[0][2], r))
			return Val{r}
		case *types.Array:
			return Val{IntC(t.Len())}
		}
	case "append":
		sl := c.Args[0].Type().Underlying().(*types.Slice)
		s, extra := args[0], args[1]
		var n *Term
		if bt, ok := c.Args[1].Type().Underlying().(*types.Basic); ok && bt.Info()&types.IsString != 0 {
			n = strLen(extra[0])
		} else {
			n = extra[2]
		}
		if st.norm(Eq(n, IntC(0))).IsTrue() {
			return s
		}
		// result never aliases the argument's backing array (assumption: append idiom)
		id := IntC(newObjID())
		prefix := "[]" + typeName(sl.Elem()) + "|"
		k, conc := st.norm(n).ConstInt()
		for _, lf := range leavesOf(sl.Elem()) {
			name := prefix + lf.Path
			arr := st.heap.get(name, nestedSort(lf.Sort, 2))
			row := Select(arr, s[0])
			if conc && k <= 64 {
				for i := int64(0); i < k; i++ {
					var src *Term
					if len(extra) == 1 {
						src = strByte(extra[0], IntC(i))
					} else {
						src = Select(Select(arr, extra[0]), Add(extra[1], IntC(i)))
					}
					row = Store(row, Add(Add(s[1], s[2]), IntC(i)), src)
				}
			} else {
				// unknown number of appended elements: contents beyond the old length are unconstrained,
				// described by a quantified fact over a fresh row
				nr := Fresh("approw", ArrSort(lf.Sort))
				bv := BVar("j", SInt)
				e.fact(st, Forall([]*Term{bv}, Implies(Lt(bv, Add(s[1], s[2])), Eq(Select(nr, bv), Select(row, bv)))))
				if len(extra) == 3 {
					e.fact(st, Forall([]*Term{bv}, Implies(And(Le(IntC(0), bv), Lt(bv, n)),
						Eq(Select(nr, Add(Add(s[1], s[2]), bv)), Select(Select(arr, extra[0]), Add(extra[1], bv))))))
				}
				row = nr
			}
			st.heap.arr[name] = Store(st.heap.get(name, nestedSort(lf.Sort, 2)), id, row)
		}
		return Val{id, s[1], Add(s[2], n)}
	case "copy":
		sl := c.Args[0].Type().Underlying().(*types.Slice)
		dst, src := args[0], args[1]
		prefix := "[]" + typeName(sl.Elem()) + "|"
		var srcLen *Term
		if len(src) == 1 {
			srcLen = strLen(src[0])
		} else {
			srcLen = src[2]
		}
		n := Ite(Lt(dst[2], srcLen), dst[2], srcLen)
		for _, lf := range leavesOf(sl.Elem()) {
			name := prefix + lf.Path
			arr := st.heap.get(name, nestedSort(lf.Sort, 2))
			nr := Fresh("copyrow", ArrSort(lf.Sort))
			bv := BVar("j", SInt)
			row := Select(arr, dst[0])
			var srcAt *Term
			if len(src) == 1 {
				srcAt = Select(App("strbytes", ArrSort(SInt), src[0]), bv)
			} else {
				srcAt = Select(Select(arr, src[0]), Add(src[1], bv))
			}
			e.fact(st, Forall([]*Term{bv}, Ite(And(Le(IntC(0), bv), Lt(bv, n)),
				Eq(Select(nr, Add(dst[1], bv)), srcAt),
				Eq(Select(nr, Add(dst[1], bv)), Select(row, Add(dst[1], bv))))))
			st.heap.arr[name] = Store(arr, dst[0], nr)
		}
		return Val{n}
	case "delete":
		m := c.Args[0].Type().Underlying().(*types.Map)
		e.mapDelete(st, m, args[0][0], keyTerm(args[1]))
		return nil
	case "panic":
		if e.Mode == ModeVerify && (e.TopFC == nil || e.TopFC.Opts["may-panic"] == "") {
			e.oblige(st, e.safetyName("explicit-panic"), "safety", c.Pos(), tFalse)
		}
		st.dead = true
		return nil
	case "print", "println":
		return nil
	case "min", "max":
		r := args[0][0]
		for _, a := range args[1:] {
			if b.Name() == "min" {
				r = Ite(Lt(a[0], r), a[0], r)
			} else {
				r = Ite(Lt(r, a[0]), a[0], r)
			}
		}
		return Val{r}
	case "ssa:wrapnilchk":
		e.nilCheck(st, args[0][0], c.Pos(), "wrapnilchk")
		return args[0]
	case "ssa:deferstack":
		return Val{IntC(0)}
	case "clear":
		unsupported("builtin clear")
	case "recover":
		return zeroVal(c.Signature().Results().At(0).Type())
	}
	unsupported("builtin %s in %s", b.Name(), fr.fn)
	return nil
}

// ---------------------------------------------------------------- spec builtins

// evalOld re-evaluates the argument of old(...) in the pre-state heap.
func (e *Engine) evalOld(st *State, fr *Frame, at ssa.Instruction) Val {
	call := at.(*ssa.Call)
	arg := call.Call.Args[0]
	if e.preHeap == nil {
		return e.get(st, fr, arg)
	}
	saved := st.heap
	savedCur := e.oldCurHeap
	e.oldCurHeap = saved
	st.heap = e.preHeap
	defer func() { st.heap = saved; e.oldCurHeap = savedCur }()
	return e.reeval(st, fr, arg, 0)
}

func (e *Engine) reeval(st *State, fr *Frame, v ssa.Value, depth int) Val {
	if depth > 200 {
		engineErr("old(): expression too deep")
	}
	switch x := v.(type) {
	case *ssa.Const, *ssa.Function, *ssa.Global, *ssa.Parameter, *ssa.FreeVar, *ssa.Alloc:
		return e.get(st, fr, v)
	case *ssa.UnOp:
		if x.Op == token.MUL {
			switch x.X.(type) {
			case *ssa.Alloc, *ssa.FreeVar:
				// a local of the specification itself (escaped to a heap cell because a quantifier
				// closure captures it): not program state, read it from the current heap
				if e.oldCurHeap != nil {
					pre := st.heap
					st.heap = e.oldCurHeap
					v := e.get(st, fr, x.X)
					t := derefType(x.X.Type())
					r := e.load(st, e.resolvePtr(st, v[0], t), t)
					st.heap = pre
					return r
				}
			}
			p := e.reeval(st, fr, x.X, depth+1)
			t := derefType(x.X.Type())
			l := e.resolvePtr(st, p[0], t)
			return e.load(st, l, t)
		}
		return e.get(st, fr, v)
	case *ssa.FieldAddr:
		base := e.reeval(st, fr, x.X, depth+1)[0]
		stT := derefType(x.X.Type())
		l := e.resolvePtr(st, base, stT)
		return Val{locID(fieldLoc(l, stT.Underlying().(*types.Struct), x.Field))}
	case *ssa.Field:
		val := e.reeval(st, fr, x.X, depth+1)
		s := x.X.Type().Underlying().(*types.Struct)
		off := fieldOffset(s, x.Field)
		return val[off : off+nLeaves(s.Field(x.Field).Type())]
	case *ssa.IndexAddr:
		idx := e.reeval(st, fr, x.Index, depth+1)[0]
		if t, ok := x.X.Type().Underlying().(*types.Slice); ok {
			s := e.reeval(st, fr, x.X, depth+1)
			return Val{locID(&Loc{Prefix: "[]" + typeName(t.Elem()) + "|", Keys: []*Term{s[0], Add(s[1], idx)}})}
		}
	case *ssa.Lookup:
		if t, ok := x.X.Type().Underlying().(*types.Map); ok {
			ref := e.reeval(st, fr, x.X, depth+1)[0]
			key := keyTerm(e.reeval(st, fr, x.Index, depth+1))
			val, has := e.mapLookup(st, t, ref, key)
			if x.CommaOk {
				return append(append(Val{}, val...), has)
			}
			return val
		}
	case *ssa.Extract:
		tup := x.Tuple.Type().(*types.Tuple)
		val := e.reeval(st, fr, x.Tuple, depth+1)
		off := tupleOffset(tup, x.Index)
		return val[off : off+nLeaves(tup.At(x.Index).Type())]
	case *ssa.ChangeType:
		return e.reeval(st, fr, x.X, depth+1)
	case *ssa.Call:
		if b, ok := x.Call.Value.(*ssa.Builtin); ok && b.Name() == "len" {
			a := e.reeval(st, fr, x.Call.Args[0], depth+1)
			switch t := x.Call.Args[0].Type().Underlying().(type) {
			case *types.Slice:
				return Val{a[2]}
			case *types.Basic:
				return Val{strLen(a[0])}
			case *types.Map:
				return Val{e.mapLen(st, t, a[0])}
			}
		}
		if callee, ok := x.Call.Value.(*ssa.Function); ok && callee.Origin() != nil && callee.Origin().Name() == "ghostctr" {
			k0 := e.reeval(st, fr, x.Call.Args[0], depth+1)
			kind, _ := strOf(k0[0])
			a := e.reeval(st, fr, x.Call.Args[1], depth+1)
			return Val{st.norm(Select(st.heap.get("ghost|"+kind, ArrSort(SInt)), a[0]))}
		}
		if callee, ok := x.Call.Value.(*ssa.Function); ok && callee.Origin() != nil && (callee.Origin().Name() == "lockacq" || callee.Origin().Name() == "lockwacq" || callee.Origin().Name() == "lockheld") {
			name := map[string]string{"lockacq": "sync|$acq", "lockwacq": "sync|$wacq", "lockheld": "sync|$held"}[callee.Origin().Name()]
			a := e.reeval(st, fr, x.Call.Args[0], depth+1)
			return Val{st.norm(Select(st.heap.get(name, ArrSort(SInt)), a[0]))}
		}
		if callee, ok := x.Call.Value.(*ssa.Function); ok && callee.Name() == "bigval" && strings.HasSuffix(e.W.Fset.Position(callee.Pos()).Filename, "zz_verif_gen.go") {
			a := e.reeval(st, fr, x.Call.Args[0], depth+1)
			return Val{bigGet(st, a[0])}
		}
		if callee, ok := x.Call.Value.(*ssa.Function); ok && len(callee.Blocks) > 0 && callee.Signature.Results().Len() == 1 &&
			strings.HasSuffix(e.W.Fset.Position(callee.Pos()).Filename, "zz_verif_gen.go") && !e.isUninterp(callee) {
			// a specification function applied inside old(): evaluate it in the pre-state heap
			var args []Val
			for _, a := range x.Call.Args {
				args = append(args, e.reeval(st, fr, a, depth+1))
			}
			if len(leavesOf(callee.Signature.Results().At(0).Type())) == 1 && leavesOf(callee.Signature.Results().At(0).Type())[0].Sort == SBool {
				return Val{e.evalSpecFn(st, callee, args, nil)}
			}
			return e.evalSpecFnVal(st, callee, args)
		}
		if callee, ok := x.Call.Value.(*ssa.Function); ok {
			if fc := e.W.ByFunc[callee]; fc != nil && fc.Pure {
				var args []Val
				for _, a := range x.Call.Args {
					args = append(args, e.reeval(st, fr, a, depth+1))
				}
				rs := e.ufResults(st, "pure$"+shortFn(callee), callee.Signature, args)
				var flat Val
				for _, r := range rs {
					flat = append(flat, r...)
				}
				return flat
			}
		}
	case *ssa.BinOp:
		// arithmetic over re-evaluated operands: temporarily rebind
		a := e.reeval(st, fr, x.X, depth+1)
		b := e.reeval(st, fr, x.Y, depth+1)
		sa, oka := fr.env[x.X]
		sb, okb := fr.env[x.Y]
		fr.env[x.X], fr.env[x.Y] = a, b
		r := e.doBinOp(st, fr, x)
		if oka {
			fr.env[x.X] = sa
		}
		if okb {
			fr.env[x.Y] = sb
		}
		return r
	}
	engineErr("old(): unsupported sub-expression %T (%s) — keep the argument of old() branch-free", v, v)
	return nil
}

func bvarsOf(t *Term) []*Term {
	seen := map[*Term]bool{}
	var out []*Term
	var rec func(t *Term)
	rec = func(t *Term) {
		if !t.hasBV || seen[t] {
			return
		}
		seen[t] = true
		if t.Op == "bvar" {
			out = append(out, t)
		}
		for _, a := range t.Args {
			rec(a)
		}
	}
	rec(t)
	// remove those bound inside
	var bound = map[*Term]bool{}
	var rec2 func(t *Term)
	seen2 := map[*Term]bool{}
	rec2 = func(t *Term) {
		if !t.hasBV || seen2[t] {
			return
		}
		seen2[t] = true
		for _, b := range t.Bound {
			bound[b] = true
		}
		for _, a := range t.Args {
			rec2(a)
		}
	}
	rec2(t)
	var free []*Term
	for _, b := range out {
		if !bound[b] {
			free = append(free, b)
		}
	}
	return free
}

// quantifier evaluates forall/exists(lo, hi, func(i int) bool) to a quantified term.
func (e *Engine) quantifier(st *State, fr *Frame, kind string, args []Val) *Term {
	lo, hi := args[0][0], args[1][0]
	fv := st.concretize(args[2][0])
	id, _ := fv.ConstInt()
	cl := e.closures[id]
	if cl == nil {
		engineErr("%s: body is not a closure literal", kind)
	}
	bvName := "i"
	if len(cl.fn.Params) > 0 && cl.fn.Params[0].Name() != "" {
		bvName = cl.fn.Params[0].Name()
	}
	bv := BVarCanon(bvName, cl.fn.String(), SInt)
	rng := And(Le(lo, bv), Lt(bv, hi))
	// small concrete ranges are expanded
	if l, ok := lo.ConstInt(); ok {
		if h, ok := hi.ConstInt(); ok && h-l <= 16 {
			var parts []*Term
			for i := l; i < h; i++ {
				parts = append(parts, e.evalSpecFn(st, cl.fn, append([]Val{{IntC(i)}}, cl.bindings...), nil))
			}
			if kind == "forall" {
				return And(parts...)
			}
			return Or(parts...)
		}
	}
	body := e.evalSpecFn(st, cl.fn, append([]Val{{bv}}, cl.bindings...), []*Term{rng})
	if kind == "forall" {
		return Forall([]*Term{bv}, Implies(rng, body))
	}
	return Exists([]*Term{bv}, And(rng, body))
}

var trace = os.Getenv("GOVC_TRACE") != ""

// isGhostRecursive: a function of the generated specification file that calls itself.
func (e *Engine) isGhostRecursive(fn *ssa.Function) bool {
	if v, ok := e.ghostRec[fn]; ok {
		return v
	}
	r := false
	if len(fn.Blocks) > 0 && strings.HasSuffix(e.W.Fset.Position(fn.Pos()).Filename, "zz_verif_gen.go") {
		for _, b := range fn.Blocks {
			for _, ins := range b.Instrs {
				if c, ok := ins.(*ssa.Call); ok {
					if f, ok := c.Call.Value.(*ssa.Function); ok && f == fn {
						r = true
					}
				}
			}
		}
	}
	e.ghostRec[fn] = r
	return r
}

func (e *Engine) isUninterp(fn *ssa.Function) bool {
	for _, pc := range e.W.Contracts {
		if pc.Uninterp[fn.Name()] && e.W.Pkgs[pc.Rel] == fn.Pkg {
			return true
		}
	}
	return false
}


// readPrefixes computes (type based, transitively through static callees) the heap-array prefixes a
// specification function may read; "*" = anything.
func (e *Engine) readPrefixes(fn *ssa.Function) map[string]bool {
	if e.readsets == nil {
		e.readsets = map[*ssa.Function]map[string]bool{}
	}
	if m, ok := e.readsets[fn]; ok {
		return m
	}
	m := map[string]bool{}
	e.readsets[fn] = m
	seen := map[*ssa.Function]bool{}
	var walk func(f *ssa.Function)
	walk = func(f *ssa.Function) {
		if f == nil || seen[f] {
			return
		}
		seen[f] = true
		for _, b := range f.Blocks {
			for _, ins := range b.Instrs {
				switch x := ins.(type) {
				case *ssa.UnOp:
					if x.Op == token.MUL {
						if a := rootAlloc(x.X); a != nil && !a.Heap {
							continue
						}
						if _, isGlobal := x.X.(*ssa.Global); isGlobal {
							m["*"] = true
							continue
						}
						m[addrPrefix(x.X)] = true
					}
				case *ssa.Lookup:
					if mt, ok := x.X.Type().Underlying().(*types.Map); ok {
						m[mapPrefix(mt)] = true
					}
				case *ssa.Range:
					if mt, ok := x.X.Type().Underlying().(*types.Map); ok {
						m[mapPrefix(mt)] = true
					}
				case *ssa.Call:
					if x.Call.IsInvoke() {
						m["*"] = true
						continue
					}
					switch v := x.Call.Value.(type) {
					case *ssa.Function:
						if e.isUninterp(v) {
							continue
						}
						if len(v.Blocks) == 0 {
							continue
						}
						walk(v)
					case *ssa.MakeClosure:
						walk(v.Fn.(*ssa.Function))
					case *ssa.Builtin:
						if v.Name() == "len" || v.Name() == "cap" {
							if mt, ok := x.Call.Args[0].Type().Underlying().(*types.Map); ok {
								m[mapPrefix(mt)] = true
							}
						}
					}
				}
			}
		}
		for _, af := range f.AnonFuncs {
			walk(af)
		}
	}
	walk(fn)
	return m
}

type recRead struct {
	name string
	sort Sort
}
