package main

// Solver portfolio (z3-new 5.1, z3 4.8, cvc5) raced per obligation, plus a persistent
// incremental z3 used only for path-feasibility pruning (never for verdicts).

import (
	"bufio"
	"bytes"
	"context"
	"fmt"
	"io"
	"os"
	"os/exec"
	"path/filepath"
	"strings"
	"sync"
	"time"
)

type SolveResult struct {
	Status string // "unsat" | "sat" | "unknown" | "timeout" | "error"
	Solver string
	Secs   float64
	Output string // full stdout of the winning (or last) solver
	Model  map[string]string
	Values []string
	Retried bool
	Second string // thorough tier: a second solver's verdict ("" if not run / no answer)
}

type solverSpec struct {
	name string
	argv func(file string, timeoutS int) []string
}

var solverSpecs = []solverSpec{
	{"z3-new", func(f string, t int) []string { return []string{"z3-new", fmt.Sprintf("-T:%d", t), f} }},
	{"z3", func(f string, t int) []string { return []string{"z3", fmt.Sprintf("-T:%d", t), f} }},
	{"cvc5", func(f string, t int) []string {
		return []string{"cvc5", "--incremental", fmt.Sprintf("--tlimit=%d", t*1000), f}
	}},
}

func firstLine(s string) string {
	for _, l := range strings.Split(s, "\n") {
		l = strings.TrimSpace(l)
		if l != "" {
			return l
		}
	}
	return ""
}

func runOne(ctx context.Context, sp solverSpec, file string, timeoutS int) (string, string) {
	argv := sp.argv(file, timeoutS)
	cmd := exec.CommandContext(ctx, argv[0], argv[1:]...)
	var out bytes.Buffer
	cmd.Stdout = &out
	cmd.Stderr = &out
	_ = cmd.Run()
	o := out.String()
	fl := firstLine(o)
	switch fl {
	case "sat", "unsat", "unknown":
		return fl, o
	case "timeout":
		return "timeout", o
	}
	if ctx.Err() != nil {
		return "timeout", o
	}
	return "error", o
}

// Solve races the portfolio on the script; seed permutes solver order only.
func Solve(file string, timeoutS int, seed int, wantSecond bool) SolveResult {
	t0 := time.Now()
	ctx, cancel := context.WithTimeout(context.Background(), time.Duration(timeoutS+2)*time.Second)
	defer cancel()
	type ans struct {
		st, out, name string
	}
	ch := make(chan ans, len(solverSpecs))
	n := len(solverSpecs)
	for i := 0; i < n; i++ {
		sp := solverSpecs[(i+seed%n+n)%n]
		go func() {
			st, out := runOne(ctx, sp, file, timeoutS)
			ch <- ans{st, out, sp.name}
		}()
	}
	var res SolveResult
	res.Status = "unknown"
	got := 0
	var firstDef *ans
	for got < n {
		a := <-ch
		got++
		if a.st == "sat" || a.st == "unsat" {
			if firstDef == nil {
				aa := a
				firstDef = &aa
				res.Status, res.Solver, res.Output = a.st, a.name, a.out
				res.Secs = time.Since(t0).Seconds()
				if !wantSecond {
					cancel()
					break
				}
			} else {
				res.Second = a.name + ":" + a.st
				cancel()
				break
			}
		} else if firstDef == nil {
			res.Status, res.Solver, res.Output = a.st, a.name, a.out
		}
	}
	if firstDef == nil {
		res.Secs = time.Since(t0).Seconds()
		if res.Status == "error" {
			res.Status = "unknown"
		}
	}
	if res.Status == "sat" {
		res.Values = parseModelValues(res.Output[strings.Index(res.Output, "sat")+3:])
	}
	return res
}

// parseModelValues parses "(get-value ...)" output positionally: the i-th result is the value
// (last s-expression) of the i-th item.
func parseModelValues(out string) []string {
	i := strings.Index(out, "(")
	if i < 0 {
		return nil
	}
	s := out[i:]
	var vals []string
	depth := 0
	itemStart := -1
	for k := 0; k < len(s); k++ {
		switch s[k] {
		case '(':
			depth++
			if depth == 2 {
				itemStart = k
			}
		case ')':
			if depth == 2 && itemStart >= 0 {
				item := s[itemStart+1 : k]
				vals = append(vals, lastSexp(item))
				itemStart = -1
			}
			depth--
			if depth == 0 {
				return vals
			}
		}
	}
	return vals
}

func lastSexp(item string) string {
	item = strings.TrimSpace(item)
	if strings.HasSuffix(item, ")") {
		depth := 0
		for k := len(item) - 1; k >= 0; k-- {
			if item[k] == ')' {
				depth++
			} else if item[k] == '(' {
				depth--
				if depth == 0 {
					v := item[k:]
					v = strings.Join(strings.Fields(v), " ")
					if strings.HasPrefix(v, "(- ") {
						v = "-" + strings.TrimSuffix(strings.TrimPrefix(v, "(- "), ")")
					}
					return v
				}
			}
		}
	}
	if sp := strings.LastIndexAny(item, " \n\t"); sp >= 0 {
		return item[sp+1:]
	}
	return item
}

// ---------------------------------------------------------------- incremental feasibility

type Feas struct {
	mu       sync.Mutex
	cmd      *exec.Cmd
	in       io.WriteCloser
	out      *bufio.Reader
	declared map[string]bool
	dead     bool
	calls    int
	prelude  string
}

func NewFeas(prelude string) *Feas {
	f := &Feas{declared: map[string]bool{}, prelude: prelude}
	f.start()
	return f
}

func (f *Feas) start() {
	cmd := exec.Command("z3-new", "-in", "-t:300")
	in, _ := cmd.StdinPipe()
	out, _ := cmd.StdoutPipe()
	cmd.Stderr = io.Discard
	if err := cmd.Start(); err != nil {
		f.dead = true
		return
	}
	f.cmd, f.in, f.out = cmd, in, bufio.NewReader(out)
	f.declared = map[string]bool{}
	fmt.Fprintf(f.in, "(set-logic ALL)\n")
	if f.prelude != "" {
		fmt.Fprintf(f.in, "%s\n", f.prelude)
	}
}

func (f *Feas) Close() {
	if f.cmd != nil {
		f.in.Close()
		f.cmd.Process.Kill()
		f.cmd.Wait()
	}
}

// Feasible answers false only if the conjunction is definitely unsatisfiable.
func (f *Feas) Feasible(pc []*Term) bool {
	for _, t := range pc {
		if t.IsFalse() {
			return false
		}
	}
	if f == nil || f.dead {
		return true
	}
	f.mu.Lock()
	defer f.mu.Unlock()
	f.calls++
	// quantified facts are dropped: a weaker path condition only makes pruning less precise
	var qf []*Term
	for _, t := range pc {
		if !t.hasQ {
			qf = append(qf, t)
		}
	}
	pc = qf
	vars, ufs, _, _ := collect(pc)
	var sb strings.Builder
	for _, n := range ufs {
		if !f.declared["u:"+n] {
			f.declared["u:"+n] = true
			sb.WriteString(ufDecls[n] + "\n")
		}
	}
	for _, n := range vars {
		if !f.declared["v:"+n] {
			f.declared["v:"+n] = true
			fmt.Fprintf(&sb, "(declare-fun %s () %s)\n", n, varDecls[n])
		}
	}
	sb.WriteString("(push)\n")
	for _, t := range pc {
		sb.WriteString("(assert ")
		printTerm(&sb, t, nil)
		sb.WriteString(")\n")
	}
	marker := fmt.Sprintf("DONE%d", f.calls)
	sb.WriteString("(check-sat)\n(pop)\n(echo \"" + marker + "\")\n")
	if lf := os.Getenv("GOVC_FEASLOG"); lf != "" {
		fh, _ := os.OpenFile(lf, os.O_APPEND|os.O_CREATE|os.O_WRONLY, 0o644)
		fh.WriteString(sb.String())
		fh.Close()
	}
	if _, err := io.WriteString(f.in, sb.String()); err != nil {
		f.dead = true
		return true
	}
	ans := ""
	for {
		line, err := f.out.ReadString('\n')
		if err != nil {
			f.dead = true
			return true
		}
		line = strings.TrimSpace(line)
		if line == marker || line == "\""+marker+"\"" {
			break
		}
		if line == "sat" || line == "unsat" || line == "unknown" {
			ans = line
		}
	}
	return ans != "unsat"
}

func writeFile(path, content string) error {
	if err := os.MkdirAll(filepath.Dir(path), 0o755); err != nil {
		return err
	}
	return os.WriteFile(path, []byte(content), 0o644)
}
