package main

// Assumed contracts ("models") for dependencies that are not executed: sync, fmt, errors,
// strconv, math/big ... Every use is counted and reported as an assumption.

import (
	"fmt"
	"go/types"
	"strings"

	"golang.org/x/tools/go/ssa"
)

type modelFn func(e *Engine, st *State, fr *Frame, callee *ssa.Function, args []Val, at ssa.Instruction) []Val

var modelTable = map[string]modelFn{}
var modelWrites = map[string]string{}

func init() {
	nop := func(e *Engine, st *State, fr *Frame, callee *ssa.Function, args []Val, at ssa.Instruction) []Val {
		return nil
	}
	for _, n := range []string{"(*sync.Mutex).Lock", "(*sync.Mutex).Unlock", "(*sync.RWMutex).Lock", "(*sync.RWMutex).Unlock",
		"(*sync.RWMutex).RLock", "(*sync.RWMutex).RUnlock"} {
		modelTable[n] = nop
	}
	modelTable["errors.New"] = freshError
	modelTable["fmt.Errorf"] = freshError
	modelTable["fmt.Sprintf"] = sprintfModel
	modelTable["fmt.Sprint"] = sprintfModel
	modelTable["fmt.Println"] = nop2
	modelTable["fmt.Printf"] = nop2
	modelTable["fmt.Print"] = nop2
	modelTable["fmt.Fprintf"] = nop2
	modelTable["fmt.Fprintln"] = nop2
	modelTable["strings.TrimSpace"] = strUF("strings.TrimSpace", true)
	modelTable["strings.ToLower"] = strUF("strings.ToLower", false)
	modelTable["strings.ToUpper"] = strUF("strings.ToUpper", false)
	modelTable["path/filepath.ToSlash"] = toSlash
	initBigModels()
}

func (e *Engine) model(st *State, fr *Frame, callee *ssa.Function, args []Val, at ssa.Instruction) ([]Val, bool) {
	m, ok := modelTable[callee.String()]
	if !ok {
		return nil, false
	}
	e.AssumedDep[callee.String()]++
	return m(e, st, fr, callee, args, at), true
}

func nop2(e *Engine, st *State, fr *Frame, callee *ssa.Function, args []Val, at ssa.Instruction) []Val {
	var out []Val
	for i := 0; i < callee.Signature.Results().Len(); i++ {
		v, as := freshVal("ret$"+callee.Name(), callee.Signature.Results().At(i).Type())
		for _, a := range as {
			e.fact(st, a)
		}
		out = append(out, v)
	}
	return out
}

var errTag int64

func freshError(e *Engine, st *State, fr *Frame, callee *ssa.Function, args []Val, at ssa.Instruction) []Val {
	// a non-nil error of a dynamic type outside the module
	if errTag == 0 {
		errTag = typeID(types.NewPointer(types.NewNamed(types.NewTypeName(0, nil, "errorString$model", nil), types.NewStruct(nil, nil), nil)))
	}
	d := Fresh("err", SInt)
	e.fact(st, Lt(IntC(0), d))
	return []Val{{IntC(errTag), d}}
}

func sprintfModel(e *Engine, st *State, fr *Frame, callee *ssa.Function, args []Val, at ssa.Instruction) []Val {
	// result is a function of the arguments (deterministic formatting); contents are not modelled,
	// except that formatting without verbs of a constant string is the string itself
	if callee.Name() == "Sprintf" {
		if f, ok := strOf(args[0][0]); ok && !strings.Contains(f, "%") {
			if n := st.norm(args[1][2]); n.IsConst() && n.Int.Sign() == 0 {
				return []Val{{internStr(f)}}
			}
		}
	}
	r := Fresh("sprintf", SInt)
	e.fact(st, Le(IntC(0), r))
	return []Val{{r}}
}

func strUF(name string, shrinks bool) modelFn {
	return func(e *Engine, st *State, fr *Frame, callee *ssa.Function, args []Val, at ssa.Instruction) []Val {
		s := args[0][0]
		if v, ok := strOf(s); ok {
			switch name {
			case "strings.TrimSpace":
				return []Val{{internStr(strings.TrimSpace(v))}}
			case "strings.ToLower":
				return []Val{{internStr(strings.ToLower(v))}}
			case "strings.ToUpper":
				return []Val{{internStr(strings.ToUpper(v))}}
			}
		}
		r := App(smtName(name), SInt, s)
		e.fact(st, Le(IntC(0), r))
		if shrinks {
			e.fact(st, Le(strLen(r), strLen(s)))
		} else {
			e.fact(st, Eq(strLen(r), strLen(s)))
		}
		return []Val{{r}}
	}
}

func toSlash(e *Engine, st *State, fr *Frame, callee *ssa.Function, args []Val, at ssa.Instruction) []Val {
	// on the platforms Ferret builds for (Separator == '/') ToSlash is the identity
	return []Val{args[0]}
}

var _ = fmt.Sprintf

// ---------------------------------------------------------------- math/big (assumed contracts)
// *big.Int is modelled by a ghost mathematical integer "math/big.Int|$val"[ref].

const bigValArr = "math/big.Int|$val"

func bigGet(st *State, ref *Term) *Term {
	return st.norm(Select(st.heap.get(bigValArr, ArrSort(SInt)), ref))
}

func bigSet(st *State, ref, v *Term) {
	st.heap.arr[bigValArr] = Store(st.heap.get(bigValArr, ArrSort(SInt)), ref, v)
}

func pow2Term(st *State, k *Term) *Term {
	k = st.norm(k)
	if c, ok := k.ConstInt(); ok && c >= 0 && c <= 4096 {
		return pow2(c)
	}
	return App("pow2", SInt, k)
}

func initBigModels() {
	defer func() {
		for k := range modelTable {
			if strings.HasPrefix(k, "(*math/big.Int).") || k == "math/big.NewInt" {
				modelWrites[k] = bigValArr
			}
		}
	}()
	bin := func(f func(a, b *Term) *Term) modelFn {
		return func(e *Engine, st *State, fr *Frame, callee *ssa.Function, args []Val, at ssa.Instruction) []Val {
			z, x, y := args[0][0], args[1][0], args[2][0]
			e.nilCheck(st, z, at.Pos(), "big")
			e.nilCheck(st, x, at.Pos(), "big")
			e.nilCheck(st, y, at.Pos(), "big")
			bigSet(st, z, f(bigGet(st, x), bigGet(st, y)))
			return []Val{{z}}
		}
	}
	modelTable["(*math/big.Int).Add"] = bin(Add)
	modelTable["(*math/big.Int).Sub"] = bin(Sub)
	modelTable["(*math/big.Int).Mul"] = bin(Mul)
	// Quo/Rem truncate toward zero; Div/Mod are Euclidean (math/big documentation)
	div := func(f func(a, b *Term) *Term) modelFn {
		return func(e *Engine, st *State, fr *Frame, callee *ssa.Function, args []Val, at ssa.Instruction) []Val {
			z, x, y := args[0][0], args[1][0], args[2][0]
			e.oblige(st, e.safetyName("big-div-by-zero"), "safety", at.Pos(), Ne(bigGet(st, y), IntC(0)))
			bigSet(st, z, f(bigGet(st, x), bigGet(st, y)))
			return []Val{{z}}
		}
	}
	modelTable["(*math/big.Int).Quo"] = div(TQuo)
	modelTable["(*math/big.Int).Rem"] = div(TRem)
	modelTable["(*math/big.Int).Div"] = div(EDiv)
	modelTable["(*math/big.Int).Mod"] = div(EMod)
	un := func(f func(a *Term) *Term) modelFn {
		return func(e *Engine, st *State, fr *Frame, callee *ssa.Function, args []Val, at ssa.Instruction) []Val {
			z, x := args[0][0], args[1][0]
			e.nilCheck(st, z, at.Pos(), "big")
			e.nilCheck(st, x, at.Pos(), "big")
			bigSet(st, z, f(bigGet(st, x)))
			return []Val{{z}}
		}
	}
	modelTable["(*math/big.Int).Neg"] = un(Neg)
	modelTable["(*math/big.Int).Set"] = un(func(a *Term) *Term { return a })
	modelTable["(*math/big.Int).Abs"] = un(func(a *Term) *Term { return Ite(Lt(a, IntC(0)), Neg(a), a) })
	modelTable["(*math/big.Int).Lsh"] = func(e *Engine, st *State, fr *Frame, callee *ssa.Function, args []Val, at ssa.Instruction) []Val {
		z, x, n := args[0][0], args[1][0], args[2][0]
		e.nilCheck(st, z, at.Pos(), "big")
		bigSet(st, z, Mul(bigGet(st, x), pow2Term(st, n)))
		return []Val{{z}}
	}
	modelTable["(*math/big.Int).Rsh"] = func(e *Engine, st *State, fr *Frame, callee *ssa.Function, args []Val, at ssa.Instruction) []Val {
		z, x, n := args[0][0], args[1][0], args[2][0]
		bigSet(st, z, EDiv(bigGet(st, x), pow2Term(st, n)))
		return []Val{{z}}
	}
	modelTable["math/big.NewInt"] = func(e *Engine, st *State, fr *Frame, callee *ssa.Function, args []Val, at ssa.Instruction) []Val {
		id := IntC(newObjID())
		bigSet(st, id, args[0][0])
		return []Val{{id}}
	}
	modelTable["(*math/big.Int).SetInt64"] = func(e *Engine, st *State, fr *Frame, callee *ssa.Function, args []Val, at ssa.Instruction) []Val {
		bigSet(st, args[0][0], args[1][0])
		return []Val{{args[0][0]}}
	}
	modelTable["(*math/big.Int).SetUint64"] = modelTable["(*math/big.Int).SetInt64"]
	modelTable["(*math/big.Int).Cmp"] = func(e *Engine, st *State, fr *Frame, callee *ssa.Function, args []Val, at ssa.Instruction) []Val {
		e.nilCheck(st, args[0][0], at.Pos(), "big")
		e.nilCheck(st, args[1][0], at.Pos(), "big")
		a, b := bigGet(st, args[0][0]), bigGet(st, args[1][0])
		return []Val{{Ite(Lt(a, b), IntC(-1), Ite(Eq(a, b), IntC(0), IntC(1)))}}
	}
	modelTable["(*math/big.Int).Sign"] = func(e *Engine, st *State, fr *Frame, callee *ssa.Function, args []Val, at ssa.Instruction) []Val {
		e.nilCheck(st, args[0][0], at.Pos(), "big")
		a := bigGet(st, args[0][0])
		return []Val{{Ite(Lt(a, IntC(0)), IntC(-1), Ite(Eq(a, IntC(0)), IntC(0), IntC(1)))}}
	}
	modelTable["(*math/big.Int).IsInt64"] = func(e *Engine, st *State, fr *Frame, callee *ssa.Function, args []Val, at ssa.Instruction) []Val {
		a := bigGet(st, args[0][0])
		return []Val{{inRange(a, types.Typ[types.Int64])}}
	}
	modelTable["(*math/big.Int).IsUint64"] = func(e *Engine, st *State, fr *Frame, callee *ssa.Function, args []Val, at ssa.Instruction) []Val {
		a := bigGet(st, args[0][0])
		return []Val{{inRange(a, types.Typ[types.Uint64])}}
	}
	modelTable["(*math/big.Int).Int64"] = func(e *Engine, st *State, fr *Frame, callee *ssa.Function, args []Val, at ssa.Instruction) []Val {
		return []Val{{wrapTo(bigGet(st, args[0][0]), types.Typ[types.Int64])}}
	}
	modelTable["(*math/big.Int).Uint64"] = func(e *Engine, st *State, fr *Frame, callee *ssa.Function, args []Val, at ssa.Instruction) []Val {
		return []Val{{wrapTo(bigGet(st, args[0][0]), types.Typ[types.Uint64])}}
	}
	modelTable["(*math/big.Int).BitLen"] = func(e *Engine, st *State, fr *Frame, callee *ssa.Function, args []Val, at ssa.Instruction) []Val {
		r := App("bitlen", SInt, bigGet(st, args[0][0]))
		e.fact(st, Le(IntC(0), r))
		return []Val{{r}}
	}
	modelTable["(*math/big.Int).String"] = func(e *Engine, st *State, fr *Frame, callee *ssa.Function, args []Val, at ssa.Instruction) []Val {
		r := App("decimal_text", SInt, bigGet(st, args[0][0]))
		e.fact(st, Le(IntC(0), r))
		return []Val{{r}}
	}
}
