package main

// Assumed contracts ("models") for dependencies that are not executed: sync, fmt, errors,
// strconv, math/big ... Every use is counted and reported as an assumption.

import (
	"fmt"
	"go/types"
	"strings"

	"golang.org/x/tools/go/ssa"
)

type modelFn func(e *Engine, st *State, fr *Frame, callee *ssa.Function, args []Val, at ssa.Instruction) []Val

var modelTable = map[string]modelFn{}
var modelWrites = map[string]string{}

func init() {
	nop := func(e *Engine, st *State, fr *Frame, callee *ssa.Function, args []Val, at ssa.Instruction) []Val {
		return nil
	}
	for _, n := range []string{"(*sync.Mutex).Lock", "(*sync.Mutex).Unlock", "(*sync.RWMutex).Lock", "(*sync.RWMutex).Unlock",
		"(*sync.RWMutex).RLock", "(*sync.RWMutex).RUnlock"} {
		modelTable[n] = nop
	}
	modelTable["errors.New"] = freshError
	modelTable["fmt.Errorf"] = freshError
	modelTable["fmt.Sprintf"] = sprintfModel
	modelTable["fmt.Sprint"] = sprintfModel
	modelTable["fmt.Println"] = nop2
	modelTable["fmt.Printf"] = nop2
	modelTable["fmt.Print"] = nop2
	modelTable["fmt.Fprintf"] = nop2
	modelTable["fmt.Fprintln"] = nop2
	modelTable["strings.TrimSpace"] = strUF("strings.TrimSpace", true)
	modelTable["strings.ToLower"] = strUF("strings.ToLower", false)
	modelTable["strings.ToUpper"] = strUF("strings.ToUpper", false)
	modelTable["path/filepath.ToSlash"] = toSlash
}

func (e *Engine) model(st *State, fr *Frame, callee *ssa.Function, args []Val, at ssa.Instruction) ([]Val, bool) {
	m, ok := modelTable[callee.String()]
	if !ok {
		return nil, false
	}
	e.AssumedDep[callee.String()]++
	return m(e, st, fr, callee, args, at), true
}

func nop2(e *Engine, st *State, fr *Frame, callee *ssa.Function, args []Val, at ssa.Instruction) []Val {
	var out []Val
	for i := 0; i < callee.Signature.Results().Len(); i++ {
		v, as := freshVal("ret$"+callee.Name(), callee.Signature.Results().At(i).Type())
		for _, a := range as {
			st.assume(a)
		}
		out = append(out, v)
	}
	return out
}

var errTag int64

func freshError(e *Engine, st *State, fr *Frame, callee *ssa.Function, args []Val, at ssa.Instruction) []Val {
	// a non-nil error of a dynamic type outside the module
	if errTag == 0 {
		errTag = typeID(types.NewPointer(types.NewNamed(types.NewTypeName(0, nil, "errorString$model", nil), types.NewStruct(nil, nil), nil)))
	}
	d := Fresh("err", SInt)
	st.assume(Lt(IntC(0), d))
	return []Val{{IntC(errTag), d}}
}

func sprintfModel(e *Engine, st *State, fr *Frame, callee *ssa.Function, args []Val, at ssa.Instruction) []Val {
	// result is a function of the arguments (deterministic formatting); contents are not modelled,
	// except that formatting without verbs of a constant string is the string itself
	if callee.Name() == "Sprintf" {
		if f, ok := strOf(args[0][0]); ok && !strings.Contains(f, "%") {
			if n := st.norm(args[1][2]); n.IsConst() && n.Int.Sign() == 0 {
				return []Val{{internStr(f)}}
			}
		}
	}
	r := Fresh("sprintf", SInt)
	st.assume(Le(IntC(0), r))
	return []Val{{r}}
}

func strUF(name string, shrinks bool) modelFn {
	return func(e *Engine, st *State, fr *Frame, callee *ssa.Function, args []Val, at ssa.Instruction) []Val {
		s := args[0][0]
		if v, ok := strOf(s); ok {
			switch name {
			case "strings.TrimSpace":
				return []Val{{internStr(strings.TrimSpace(v))}}
			case "strings.ToLower":
				return []Val{{internStr(strings.ToLower(v))}}
			case "strings.ToUpper":
				return []Val{{internStr(strings.ToUpper(v))}}
			}
		}
		r := App(smtName(name), SInt, s)
		st.assume(Le(IntC(0), r))
		if shrinks {
			st.assume(Le(strLen(r), strLen(s)))
		} else {
			st.assume(Eq(strLen(r), strLen(s)))
		}
		return []Val{{r}}
	}
}

func toSlash(e *Engine, st *State, fr *Frame, callee *ssa.Function, args []Val, at ssa.Instruction) []Val {
	// on the platforms Ferret builds for (Separator == '/') ToSlash is the identity
	return []Val{args[0]}
}

var _ = fmt.Sprintf
