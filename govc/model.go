package main

// Assumed contracts ("models") for dependencies that are not executed: sync, fmt, errors,
// strconv, math/big ... Every use is counted and reported as an assumption.

import (
	"fmt"
	"os"
	"go/types"
	"math/big"
	"strings"

	"golang.org/x/tools/go/ssa"
)

type modelFn func(e *Engine, st *State, fr *Frame, callee *ssa.Function, args []Val, at ssa.Instruction) []Val

var modelTable = map[string]modelFn{}
var modelWrites = map[string]string{}

func init() {
	nop := func(e *Engine, st *State, fr *Frame, callee *ssa.Function, args []Val, at ssa.Instruction) []Val {
		return nil
	}
	_ = nop
	// Locks: ghost counters per lock address — number of acquisitions (any / write) and the current
	// holding state (0 free, 1 read-held, 2 write-held). Mutual exclusion itself is assumed
	// (sync's contract); the counters let a contract say "exactly one write critical section".
	lockOp := func(acq, wacq int64, held int64) modelFn {
		return func(e *Engine, st *State, fr *Frame, callee *ssa.Function, args []Val, at ssa.Instruction) []Val {
			p := args[0][0]
			get := func(name string) *Term { return Select(st.heap.get(name, ArrSort(SInt)), p) }
			set := func(name string, v *Term) { st.heap.arr[name] = Store(st.heap.get(name, ArrSort(SInt)), p, v) }
			set("sync|$acq", Add(get("sync|$acq"), IntC(acq)))
			set("sync|$wacq", Add(get("sync|$wacq"), IntC(wacq)))
			set("sync|$held", IntC(held))
			return nil
		}
	}
	modelTable["(*sync.Mutex).Lock"] = lockOp(1, 1, 2)
	modelTable["(*sync.Mutex).Unlock"] = lockOp(0, 0, 0)
	modelTable["(*sync.RWMutex).Lock"] = lockOp(1, 1, 2)
	modelTable["(*sync.RWMutex).Unlock"] = lockOp(0, 0, 0)
	modelTable["(*sync.RWMutex).RLock"] = lockOp(1, 0, 1)
	modelTable["(*sync.RWMutex).RUnlock"] = lockOp(0, 0, 0)
	for _, n := range []string{"(*sync.Mutex).Lock", "(*sync.Mutex).Unlock", "(*sync.RWMutex).Lock", "(*sync.RWMutex).Unlock", "(*sync.RWMutex).RLock", "(*sync.RWMutex).RUnlock"} {
		modelWrites[n] = "sync|$"
	}
	// sync.Map / WaitGroup: results are unknown (other goroutines interfere); ghost counters per
	// map address record which operations a function performed, so that a contract can require a
	// single atomic LoadOrStore instead of a separable Load + Store.
	ctrOp := func(kind string) modelFn {
		return func(e *Engine, st *State, fr *Frame, callee *ssa.Function, args []Val, at ssa.Instruction) []Val {
			name := "ghost|" + kind
			p := args[0][0]
			st.heap.arr[name] = Store(st.heap.get(name, ArrSort(SInt)), p, Add(Select(st.heap.get(name, ArrSort(SInt)), p), IntC(1)))
			return nop2(e, st, fr, callee, args, at)
		}
	}
	for _, k := range []string{"LoadOrStore", "Load", "Store", "Delete", "LoadAndDelete", "Swap", "CompareAndSwap"} {
		modelTable["(*sync.Map)."+k] = ctrOp("sync.Map." + k)
		modelWrites["(*sync.Map)."+k] = "ghost|"
	}
	for _, k := range []string{"Add", "Done", "Wait"} {
		modelTable["(*sync.WaitGroup)."+k] = nop
	}
	modelTable["errors.New"] = freshError
	modelTable["fmt.Errorf"] = freshError
	modelTable["fmt.Sprintf"] = sprintfModel
	modelTable["fmt.Sprint"] = sprintfModel
	modelTable["fmt.Println"] = nop2
	modelTable["fmt.Printf"] = nop2
	modelTable["fmt.Print"] = nop2
	modelTable["fmt.Fprintf"] = nop2
	modelTable["fmt.Fprintln"] = nop2
	modelTable["fmt.Fprint"] = nop2
	modelTable["strings.TrimSpace"] = strUF("strings.TrimSpace", true)
	modelTable["strings.ToLower"] = strUF("strings.ToLower", false)
	modelTable["strings.Trim"] = strUF2("strings.Trim")
	modelTable["strings.TrimLeft"] = strUF2("strings.TrimLeft")
	modelTable["strings.TrimRight"] = strUF2("strings.TrimRight")
	modelTable["strings.TrimPrefix"] = strUF2("strings.TrimPrefix")
	modelTable["strings.TrimSuffix"] = strUF2("strings.TrimSuffix")
	modelTable["strings.ToUpper"] = strUF("strings.ToUpper", false)
	modelTable["strings.Repeat"] = func(e *Engine, st *State, fr *Frame, callee *ssa.Function, args []Val, at ssa.Instruction) []Val {
		// strings.Repeat panics on a negative count: a safety obligation of the caller
		a, n := args[0][0], args[1][0]
		e.oblige(st, e.safetyName("negative-repeat-count"), "safety", at.Pos(), Le(IntC(0), n))
		if av, ok := strOf(a); ok {
			if c, ok := st.norm(n).ConstInt(); ok && c >= 0 && c <= 64 {
				return []Val{{internStr(strings.Repeat(av, int(c)))}}
			}
		}
		r := App(smtName("strings.Repeat"), SInt, a, n)
		e.fact(st, Le(IntC(0), r))
		if av, ok := strOf(a); ok {
			e.fact(st, Eq(strLen(r), Mul(IntC(int64(len(av))), n)))
		}
		return []Val{{r}}
	}
	modelTable["strings.ReplaceAll"] = func(e *Engine, st *State, fr *Frame, callee *ssa.Function, args []Val, at ssa.Instruction) []Val {
		s, o, n := st.norm(args[0][0]), st.norm(args[1][0]), st.norm(args[2][0])
		if sv, ok := strOf(s); ok {
			if ov, ok := strOf(o); ok {
				if nv, ok := strOf(n); ok {
					return []Val{{internStr(strings.ReplaceAll(sv, ov, nv))}}
				}
			}
		}
		r := App(smtName("strings.ReplaceAll"), SInt, s, o, n)
		e.fact(st, Le(IntC(0), r))
		// removing a text is idempotent
		if nv, ok := strOf(n); ok && nv == "" {
			e.fact(st, Eq(App(smtName("strings.ReplaceAll"), SInt, r, o, n), r))
			e.fact(st, Le(strLen(r), strLen(s)))
		}
		return []Val{{r}}
	}
	modelTable["path/filepath.ToSlash"] = toSlash
	initStrconvModels()
	initBuilderModels()
	initBigModels()
}

func (e *Engine) model(st *State, fr *Frame, callee *ssa.Function, args []Val, at ssa.Instruction) ([]Val, bool) {
	m, ok := modelTable[callee.String()]
	if !ok {
		return nil, false
	}
	e.AssumedDep[callee.String()]++
	return m(e, st, fr, callee, args, at), true
}

func nop2(e *Engine, st *State, fr *Frame, callee *ssa.Function, args []Val, at ssa.Instruction) []Val {
	var out []Val
	for i := 0; i < callee.Signature.Results().Len(); i++ {
		v, as := freshVal("ret$"+callee.Name(), callee.Signature.Results().At(i).Type())
		for _, a := range as {
			e.fact(st, a)
		}
		out = append(out, v)
	}
	return out
}

var errTag int64

func freshError(e *Engine, st *State, fr *Frame, callee *ssa.Function, args []Val, at ssa.Instruction) []Val {
	// a non-nil error of a dynamic type outside the module
	if errTag == 0 {
		errTag = typeID(types.NewPointer(types.NewNamed(types.NewTypeName(0, nil, "errorString$model", nil), types.NewStruct(nil, nil), nil)))
	}
	d := Fresh("err", SInt)
	e.fact(st, Lt(IntC(0), d))
	return []Val{{IntC(errTag), d}}
}

func sprintfModel(e *Engine, st *State, fr *Frame, callee *ssa.Function, args []Val, at ssa.Instruction) []Val {
	// result is a function of the arguments (deterministic formatting); contents are not modelled,
	// except that formatting without verbs of a constant string is the string itself
	if callee.Name() == "Sprintf" {
		if f, ok := strOf(args[0][0]); ok && !strings.Contains(f, "%") {
			if n := st.norm(args[1][2]); n.IsConst() && n.Int.Sign() == 0 {
				return []Val{{internStr(f)}}
			}
		}
	}
	if callee.Name() == "Sprintf" {
		if r, ok := sprintfConcat(e, st, callee, args); ok {
			return []Val{{r}}
		}
	}
	r := Fresh("sprintf", SInt)
	e.fact(st, Le(IntC(0), r))
	return []Val{{r}}
}

// sprintfConcat handles formats made of literal text and %s / %d / %v verbs whose arguments are
// strings or ints: the result is the concatenation (ints through the decimal text function itoa).
func sprintfConcat(e *Engine, st *State, callee *ssa.Function, args []Val) (*Term, bool) {
	f, ok := strOf(args[0][0])
	if !ok {
		return nil, false
	}
	n, ok := st.norm(args[1][2]).ConstInt()
	if !ok || n > 6 {
		return nil, false
	}
	var anyT types.Type = types.NewInterfaceType(nil, nil)
	if ps := callee.Signature.Params(); ps.Len() >= 2 {
		if sl, ok := ps.At(ps.Len() - 1).Type().Underlying().(*types.Slice); ok {
			anyT = sl.Elem()
		}
	}
	var pieces []*Term
	argi := int64(0)
	lit := ""
	for i := 0; i < len(f); i++ {
		if f[i] != '%' {
			lit += string(f[i])
			continue
		}
		if i+1 >= len(f) {
			return nil, false
		}
		i++
		switch f[i] {
		case '%':
			lit += "%"
		case 's', 'd', 'v':
			if argi >= n {
				return nil, false
			}
			if lit != "" {
				pieces = append(pieces, internStr(lit))
				lit = ""
			}
			el := e.load(st, &Loc{Prefix: "[]" + typeName(anyT) + "|", Keys: []*Term{args[1][0], Add(args[1][1], IntC(argi))}}, anyT)
			argi++
			tag, isC := st.norm(el[0]).ConstInt()
			if !isC || tag == 0 {
				return nil, false
			}
			switch bt := typeByID[tag].Underlying().(type) {
			case *types.Basic:
				switch {
				case bt.Info()&types.IsString != 0 && f[i] != 'd':
					pieces = append(pieces, el[1])
				case bt.Info()&types.IsInteger != 0 && f[i] != 's':
					it := App("itoa", SInt, el[1])
					e.fact(st, Le(IntC(0), it))
					e.fact(st, Le(IntC(1), strLen(it)))
					pieces = append(pieces, it)
				default:
					return nil, false
				}
			default:
				return nil, false
			}
		default:
			return nil, false
		}
	}
	if argi != n {
		return nil, false
	}
	if lit != "" {
		pieces = append(pieces, internStr(lit))
	}
	r := internStr("")
	for _, p := range pieces {
		r = e.strcat(st, r, p)
	}
	return r, true
}

func strUF(name string, shrinks bool) modelFn {
	return func(e *Engine, st *State, fr *Frame, callee *ssa.Function, args []Val, at ssa.Instruction) []Val {
		s := args[0][0]
		if v, ok := strOf(s); ok {
			switch name {
			case "strings.TrimSpace":
				return []Val{{internStr(strings.TrimSpace(v))}}
			case "strings.ToLower":
				return []Val{{internStr(strings.ToLower(v))}}
			case "strings.ToUpper":
				return []Val{{internStr(strings.ToUpper(v))}}
			}
		}
		r := App(smtName(name), SInt, s)
		e.fact(st, Le(IntC(0), r))
		if name == "strings.TrimSpace" {
			// nothing is trimmed when the first and last bytes are ASCII and not white space
			ns := func(b *Term) *Term {
				return And(Lt(b, IntC(128)), Ne(b, IntC(32)), Or(Lt(b, IntC(9)), Lt(IntC(13), b)))
			}
			e.fact(st, Implies(And(Lt(IntC(0), strLen(s)), ns(strByte(s, IntC(0))), ns(strByte(s, Sub(strLen(s), IntC(1))))), Eq(r, s)))
		}
		if shrinks {
			e.fact(st, Le(strLen(r), strLen(s)))
		} else {
			e.fact(st, Eq(strLen(r), strLen(s)))
		}
		return []Val{{r}}
	}
}

// strUF2: two-string-argument trimming functions: a deterministic result no longer than the input.
func strUF2(name string) modelFn {
	return func(e *Engine, st *State, fr *Frame, callee *ssa.Function, args []Val, at ssa.Instruction) []Val {
		a, b := args[0][0], args[1][0]
		if av, ok := strOf(a); ok {
			if bv, ok := strOf(b); ok {
				switch name {
				case "strings.Trim":
					return []Val{{internStr(strings.Trim(av, bv))}}
				case "strings.TrimLeft":
					return []Val{{internStr(strings.TrimLeft(av, bv))}}
				case "strings.TrimRight":
					return []Val{{internStr(strings.TrimRight(av, bv))}}
				case "strings.TrimPrefix":
					return []Val{{internStr(strings.TrimPrefix(av, bv))}}
				case "strings.TrimSuffix":
					return []Val{{internStr(strings.TrimSuffix(av, bv))}}
				}
			}
		}
		r := App(smtName(name), SInt, a, b)
		e.fact(st, Le(IntC(0), r))
		e.fact(st, Le(strLen(r), strLen(a)))
		// Trim(c + x + c, c) == x when the single-character cutset c does not occur in x
		if cut, ok := strOf(b); ok && len(cut) == 1 && name == "strings.Trim" && a.Op == "app" && a.Name == "strcat" && len(a.Args) == 2 && a.Args[1] == b &&
			a.Args[0].Op == "app" && a.Args[0].Name == "strcat" && a.Args[0].Args[0] == b {
			x := a.Args[0].Args[1]
			bv := BVar("i", SInt)
			e.fact(st, Implies(Forall([]*Term{bv}, Implies(And(Le(IntC(0), bv), Lt(bv, strLen(x))), Ne(Select(App("strbytes", ArrSort(SInt), x), bv), IntC(int64(cut[0]))))), Eq(r, x)))
		}
		return []Val{{r}}
	}
}

func toSlash(e *Engine, st *State, fr *Frame, callee *ssa.Function, args []Val, at ssa.Instruction) []Val {
	// on the platforms Ferret builds for (Separator == '/') ToSlash is the identity
	return []Val{args[0]}
}

var _ = fmt.Sprintf

// ---------------------------------------------------------------- math/big (assumed contracts)
// *big.Int is modelled by a ghost mathematical integer "math/big.Int|$val"[ref].

const bigValArr = "math/big.Int|$val"

func bigGet(st *State, ref *Term) *Term {
	return st.norm(Select(st.heap.get(bigValArr, ArrSort(SInt)), ref))
}

func bigSet(st *State, ref, v *Term) {
	st.heap.arr[bigValArr] = Store(st.heap.get(bigValArr, ArrSort(SInt)), ref, v)
}

func pow2Term(st *State, k *Term) *Term {
	k = st.norm(k)
	if c, ok := k.ConstInt(); ok && c >= 0 && c <= 4096 {
		return pow2(c)
	}
	return App("pow2", SInt, k)
}

// goIntText: the digit text and the base that strconv.ParseInt / big.Int.SetString use for (s, base).
func goIntText(e *Engine, st *State, s, base *Term) (*Term, *Term) {
	if c, ok := base.ConstInt(); ok && c != 0 {
		return s, base
	}
	b0, b1 := strByte(s, IntC(0)), strByte(s, IntC(1))
	lead0 := And(Le(IntC(2), strLen(s)), Eq(b0, IntC('0')))
	is := func(lo, up byte) *Term { return Or(Eq(b1, IntC(int64(lo))), Eq(b1, IntC(int64(up)))) }
	two := e.substr(st, s, IntC(2), strLen(s))
	one := e.substr(st, s, IntC(1), strLen(s))
	pref := And(lead0, Or(is('x', 'X'), is('b', 'B'), is('o', 'O')))
	digs := Ite(pref, two, Ite(lead0, one, s))
	gb := Ite(And(lead0, is('x', 'X')), IntC(16), Ite(And(lead0, is('b', 'B')), IntC(2), Ite(lead0, IntC(8), IntC(10))))
	if c, ok := base.ConstInt(); ok && c == 0 {
		return digs, gb
	}
	return Ite(Eq(base, IntC(0)), digs, s), Ite(Eq(base, IntC(0)), gb, base)
}

func initBigModels() {
	modelTable["(*math/big.Int).SetString"] = func(e *Engine, st *State, fr *Frame, callee *ssa.Function, args []Val, at ssa.Instruction) []Val {
		z, s, base := args[0][0], st.norm(args[1][0]), st.norm(args[2][0])
		e.nilCheck(st, z, at.Pos(), "big")
		digs, b := goIntText(e, st, s, base)
		okT := App("litvalid", SBool, digs, b)
		// on failure the receiver's value is undefined (and nil is returned)
		bigSet(st, z, Ite(okT, App("litdigits", SInt, digs, b), Fresh("setstring", SInt)))
		return []Val{{Ite(okT, z, IntC(0))}, {okT}}
	}
	defer func() {
		for k := range modelTable {
			if strings.HasPrefix(k, "(*math/big.Int).") || k == "math/big.NewInt" {
				modelWrites[k] = bigValArr
			}
		}
	}()
	bin := func(f func(a, b *Term) *Term) modelFn {
		return func(e *Engine, st *State, fr *Frame, callee *ssa.Function, args []Val, at ssa.Instruction) []Val {
			z, x, y := args[0][0], args[1][0], args[2][0]
			e.nilCheck(st, z, at.Pos(), "big")
			e.nilCheck(st, x, at.Pos(), "big")
			e.nilCheck(st, y, at.Pos(), "big")
			bigSet(st, z, f(bigGet(st, x), bigGet(st, y)))
			return []Val{{z}}
		}
	}
	modelTable["(*math/big.Int).Add"] = bin(Add)
	modelTable["(*math/big.Int).Sub"] = bin(Sub)
	modelTable["(*math/big.Int).Mul"] = bin(Mul)
	// Quo/Rem truncate toward zero; Div/Mod are Euclidean (math/big documentation)
	div := func(f func(a, b *Term) *Term) modelFn {
		return func(e *Engine, st *State, fr *Frame, callee *ssa.Function, args []Val, at ssa.Instruction) []Val {
			z, x, y := args[0][0], args[1][0], args[2][0]
			e.oblige(st, e.safetyName("big-div-by-zero"), "safety", at.Pos(), Ne(bigGet(st, y), IntC(0)))
			bigSet(st, z, f(bigGet(st, x), bigGet(st, y)))
			return []Val{{z}}
		}
	}
	modelTable["(*math/big.Int).Quo"] = div(TQuo)
	modelTable["(*math/big.Int).Rem"] = div(TRem)
	modelTable["(*math/big.Int).Div"] = div(EDiv)
	modelTable["(*math/big.Int).Mod"] = div(EMod)
	un := func(f func(a *Term) *Term) modelFn {
		return func(e *Engine, st *State, fr *Frame, callee *ssa.Function, args []Val, at ssa.Instruction) []Val {
			z, x := args[0][0], args[1][0]
			e.nilCheck(st, z, at.Pos(), "big")
			e.nilCheck(st, x, at.Pos(), "big")
			bigSet(st, z, f(bigGet(st, x)))
			return []Val{{z}}
		}
	}
	modelTable["(*math/big.Int).Neg"] = un(Neg)
	modelTable["(*math/big.Int).Set"] = un(func(a *Term) *Term { return a })
	modelTable["(*math/big.Int).Abs"] = un(func(a *Term) *Term { return Ite(Lt(a, IntC(0)), Neg(a), a) })
	modelTable["(*math/big.Int).Lsh"] = func(e *Engine, st *State, fr *Frame, callee *ssa.Function, args []Val, at ssa.Instruction) []Val {
		z, x, n := args[0][0], args[1][0], args[2][0]
		e.nilCheck(st, z, at.Pos(), "big")
		bigSet(st, z, Mul(bigGet(st, x), pow2Term(st, n)))
		return []Val{{z}}
	}
	modelTable["(*math/big.Int).Rsh"] = func(e *Engine, st *State, fr *Frame, callee *ssa.Function, args []Val, at ssa.Instruction) []Val {
		z, x, n := args[0][0], args[1][0], args[2][0]
		bigSet(st, z, EDiv(bigGet(st, x), pow2Term(st, n)))
		return []Val{{z}}
	}
	modelTable["math/big.NewInt"] = func(e *Engine, st *State, fr *Frame, callee *ssa.Function, args []Val, at ssa.Instruction) []Val {
		id := IntC(newObjID())
		bigSet(st, id, args[0][0])
		return []Val{{id}}
	}
	modelTable["(*math/big.Int).SetInt64"] = func(e *Engine, st *State, fr *Frame, callee *ssa.Function, args []Val, at ssa.Instruction) []Val {
		bigSet(st, args[0][0], args[1][0])
		return []Val{{args[0][0]}}
	}
	modelTable["(*math/big.Int).SetUint64"] = modelTable["(*math/big.Int).SetInt64"]
	modelTable["(*math/big.Int).Cmp"] = func(e *Engine, st *State, fr *Frame, callee *ssa.Function, args []Val, at ssa.Instruction) []Val {
		e.nilCheck(st, args[0][0], at.Pos(), "big")
		e.nilCheck(st, args[1][0], at.Pos(), "big")
		a, b := bigGet(st, args[0][0]), bigGet(st, args[1][0])
		return []Val{{Ite(Lt(a, b), IntC(-1), Ite(Eq(a, b), IntC(0), IntC(1)))}}
	}
	modelTable["(*math/big.Int).Sign"] = func(e *Engine, st *State, fr *Frame, callee *ssa.Function, args []Val, at ssa.Instruction) []Val {
		e.nilCheck(st, args[0][0], at.Pos(), "big")
		a := bigGet(st, args[0][0])
		return []Val{{Ite(Lt(a, IntC(0)), IntC(-1), Ite(Eq(a, IntC(0)), IntC(0), IntC(1)))}}
	}
	modelTable["(*math/big.Int).IsInt64"] = func(e *Engine, st *State, fr *Frame, callee *ssa.Function, args []Val, at ssa.Instruction) []Val {
		a := bigGet(st, args[0][0])
		return []Val{{inRange(a, types.Typ[types.Int64])}}
	}
	modelTable["(*math/big.Int).IsUint64"] = func(e *Engine, st *State, fr *Frame, callee *ssa.Function, args []Val, at ssa.Instruction) []Val {
		a := bigGet(st, args[0][0])
		return []Val{{inRange(a, types.Typ[types.Uint64])}}
	}
	modelTable["(*math/big.Int).Int64"] = func(e *Engine, st *State, fr *Frame, callee *ssa.Function, args []Val, at ssa.Instruction) []Val {
		return []Val{{wrapTo(bigGet(st, args[0][0]), types.Typ[types.Int64])}}
	}
	modelTable["(*math/big.Int).Uint64"] = func(e *Engine, st *State, fr *Frame, callee *ssa.Function, args []Val, at ssa.Instruction) []Val {
		return []Val{{wrapTo(bigGet(st, args[0][0]), types.Typ[types.Uint64])}}
	}
	modelTable["(*math/big.Int).BitLen"] = func(e *Engine, st *State, fr *Frame, callee *ssa.Function, args []Val, at ssa.Instruction) []Val {
		r := App("bitlen", SInt, bigGet(st, args[0][0]))
		e.fact(st, Le(IntC(0), r))
		return []Val{{r}}
	}
	modelTable["(*math/big.Int).String"] = func(e *Engine, st *State, fr *Frame, callee *ssa.Function, args []Val, at ssa.Instruction) []Val {
		r := App("decimal_text", SInt, bigGet(st, args[0][0]))
		e.fact(st, Le(IntC(0), r))
		return []Val{{r}}
	}
}

// ---------------------------------------------------------------- strconv (assumed contracts)
// Itoa/Atoi, FormatBool, FormatFloat/ParseFloat: texts are uninterpreted except for the facts the
// package documents: Atoi(Itoa(i)) == i, ParseFloat(FormatFloat(f,'f',-1,64),64) == f, a decimal
// integer text starts with '-' or a digit and is neither "true" nor "false", FormatBool gives
// "true"/"false". Constant arguments are computed.

func initStrconvModels() {
	modelTable["strconv.FormatBool"] = func(e *Engine, st *State, fr *Frame, callee *ssa.Function, args []Val, at ssa.Instruction) []Val {
		return []Val{{Ite(args[0][0], internStr("true"), internStr("false"))}}
	}
	modelTable["strconv.Itoa"] = func(e *Engine, st *State, fr *Frame, callee *ssa.Function, args []Val, at ssa.Instruction) []Val {
		i := st.norm(args[0][0])
		if c, ok := i.ConstInt(); ok {
			return []Val{{internStr(fmt.Sprint(c))}}
		}
		r := App("itoa", SInt, i)
		e.fact(st, Le(IntC(0), r))
		e.fact(st, Le(IntC(1), strLen(r)))
		b0 := strByte(r, IntC(0))
		e.fact(st, Or(Eq(b0, IntC('-')), And(Le(IntC('0'), b0), Le(b0, IntC('9')))))
		e.fact(st, Ne(r, internStr("true")))
		e.fact(st, Ne(r, internStr("false")))
		e.fact(st, App("atoi_ok", SBool, r))
		e.fact(st, Eq(App("atoi_val", SInt, r), i))
		// every byte is '-' or a digit; the last one is a digit
		bv := BVar("i", SInt)
		bt := Select(App("strbytes", ArrSort(SInt), r), bv)
		e.fact(st, Forall([]*Term{bv}, Implies(And(Le(IntC(0), bv), Lt(bv, strLen(r))), Or(Eq(bt, IntC('-')), And(Le(IntC('0'), bt), Le(bt, IntC('9')))))))
		bl := strByte(r, Sub(strLen(r), IntC(1)))
		e.fact(st, And(Le(IntC('0'), bl), Le(bl, IntC('9'))))
		return []Val{{r}}
	}
	modelTable["strconv.Atoi"] = func(e *Engine, st *State, fr *Frame, callee *ssa.Function, args []Val, at ssa.Instruction) []Val {
		s := st.norm(args[0][0])
		if v, ok := strOf(s); ok {
			n, err := parseDecimal(v)
			if err {
				return []Val{{IntC(0)}, freshError(e, st, fr, callee, args, at)[0]}
			}
			return []Val{{BigC(n)}, {IntC(0), IntC(0)}}
		}
		okT := App("atoi_ok", SBool, s)
		val := App("atoi_val", SInt, s)
		e.fact(st, inRange(val, types.Typ[types.Int]))
		errv := freshError(e, st, fr, callee, args, at)[0]
		return []Val{{Ite(okT, val, IntC(0))}, {Ite(okT, IntC(0), errv[0]), Ite(okT, IntC(0), errv[1])}}
	}
	// Integer texts. litdigits(t, b) is the mathematical value of the digit text t in base b (with an
	// optional sign), litvalid(t, b) says that t is such a text: both uninterpreted and SHARED by
	// strconv.ParseInt and (*big.Int).SetString. With base 0 both functions choose the base the way Go
	// documents: "0x"/"0X" -> 16, "0b"/"0B" -> 2, "0o"/"0O" -> 8, any other text of two or more
	// characters that starts with '0' -> 8 (a leading zero IS an octal prefix in Go), otherwise 10.
	modelTable["strconv.ParseInt"] = func(e *Engine, st *State, fr *Frame, callee *ssa.Function, args []Val, at ssa.Instruction) []Val {
		s, base, bits := st.norm(args[0][0]), st.norm(args[1][0]), st.norm(args[2][0])
		digs, b := goIntText(e, st, s, base)
		val := App("litdigits", SInt, digs, b)
		lim := pow2Term(st, Sub(Ite(Eq(bits, IntC(0)), IntC(64), bits), IntC(1)))
		okT := And(App("litvalid", SBool, digs, b), Le(Neg(lim), val), Lt(val, lim))
		errv := freshError(e, st, fr, callee, args, at)[0]
		junk := Fresh("parseint", SInt)
		e.fact(st, inRange(junk, types.Typ[types.Int64]))
		return []Val{{Ite(okT, val, junk)}, {Ite(okT, IntC(0), errv[0]), Ite(okT, IntC(0), errv[1])}}
	}
	modelTable["strconv.FormatFloat"] = func(e *Engine, st *State, fr *Frame, callee *ssa.Function, args []Val, at ssa.Instruction) []Val {
		f := st.norm(args[0][0])
		r := App("fmtfloat", SInt, f, args[1][0], args[2][0], args[3][0])
		e.fact(st, Le(IntC(0), r))
		e.fact(st, Le(IntC(1), strLen(r)))
		e.fact(st, Ne(r, internStr("true")))
		e.fact(st, Ne(r, internStr("false")))
		// round trip for the shortest 'f' format of a finite value
		e.fact(st, Implies(App("float_finite", SBool, f), And(App("parsefloat_ok", SBool, r), Eq(App("parsefloat_val", SInt, r), f))))
		// an integral value is printed without a fractional part, i.e. as a decimal integer text
		e.fact(st, Implies(And(App("float_finite", SBool, f), App("float_integral", SBool, f)), App("atoi_ok", SBool, r)))
		fin := App("float_finite", SBool, f)
		// shape of the 'f' format of a finite value: digits, '-' and '.', starting with '-' or a
		// digit and ending with a digit
		bv := BVar("i", SInt)
		bt := Select(App("strbytes", ArrSort(SInt), r), bv)
		e.fact(st, Implies(fin, Forall([]*Term{bv}, Implies(And(Le(IntC(0), bv), Lt(bv, strLen(r))),
			Or(Eq(bt, IntC('-')), Eq(bt, IntC('.')), And(Le(IntC('0'), bt), Le(bt, IntC('9'))))))))
		b0 := strByte(r, IntC(0))
		bl := strByte(r, Sub(strLen(r), IntC(1)))
		e.fact(st, Implies(fin, And(Or(Eq(b0, IntC('-')), And(Le(IntC('0'), b0), Le(b0, IntC('9')))), Le(IntC('0'), bl), Le(bl, IntC('9')))))
		// a decimal integer text followed by ".0" is not an integer text and denotes the same number
		r2 := e.strcat(st, r, internStr(".0"))
		e.fact(st, Implies(And(fin, App("atoi_ok", SBool, r)), And(Not(App("atoi_ok", SBool, r2)), App("parsefloat_ok", SBool, r2), Eq(App("parsefloat_val", SInt, r2), f))))
		return []Val{{r}}
	}
	modelTable["strconv.ParseFloat"] = func(e *Engine, st *State, fr *Frame, callee *ssa.Function, args []Val, at ssa.Instruction) []Val {
		s := st.norm(args[0][0])
		okT := App("parsefloat_ok", SBool, s)
		val := App("parsefloat_val", SInt, s)
		e.fact(st, Le(IntC(0), val))
		errv := freshError(e, st, fr, callee, args, at)[0]
		return []Val{{val}, {Ite(okT, IntC(0), errv[0]), Ite(okT, IntC(0), errv[1])}}
	}
}

func parseDecimal(s string) (*big.Int, bool) {
	if s == "" {
		return nil, true
	}
	t := s
	if t[0] == '+' || t[0] == '-' {
		t = t[1:]
	}
	if t == "" || len(t) > 18 {
		return nil, true
	}
	for i := 0; i < len(t); i++ {
		if t[i] < '0' || t[i] > '9' {
			return nil, true
		}
	}
	n, ok := new(big.Int).SetString(s, 10)
	return n, !ok
}

// ---------------------------------------------------------------- strings.Builder (assumed contract)
// A Builder is modelled by the string it has accumulated (ghost "strings.Builder|$str"[ref]).

// The accumulated text is kept in the struct's own first word (the otherwise unused `addr`
// self-pointer), so that it travels with value copies of the struct (e.g. into a specification).
func builderLoc(e *Engine, st *State, callee *ssa.Function, ref *Term) (*Loc, types.Type) {
	t := derefType(callee.Signature.Recv().Type())
	return e.resolvePtr(st, ref, t), t
}

func builderGetC(e *Engine, st *State, callee *ssa.Function, ref *Term) *Term {
	l, t := builderLoc(e, st, callee, ref)
	return st.norm(e.load(st, l, t)[0])
}

func builderSetC(e *Engine, st *State, callee *ssa.Function, ref, v *Term) {
	l, t := builderLoc(e, st, callee, ref)
	old := e.load(st, l, t)
	nv := append(Val{}, old...)
	nv[0] = v
	e.store(st, l, t, nv)
}

func initBuilderModels() {
	modelTable["(*strings.Builder).WriteRune"] = func(e *Engine, st *State, fr *Frame, callee *ssa.Function, args []Val, at ssa.Instruction) []Val {
		b, r := args[0][0], args[1][0]
		var rs *Term
		if c, ok := r.ConstInt(); ok {
			rs = internStr(string(rune(c)))
		} else {
			rs = App("runestr", SInt, r)
			e.fact(st, Le(IntC(0), rs))
			e.fact(st, And(Le(IntC(1), strLen(rs)), Le(strLen(rs), IntC(4))))
		}
		builderSetC(e, st, callee, b, e.strcat(st, builderGetC(e, st, callee, b), rs))
		return []Val{{strLen(rs)}, {IntC(0), IntC(0)}}
	}
	modelTable["(*strings.Builder).WriteString"] = func(e *Engine, st *State, fr *Frame, callee *ssa.Function, args []Val, at ssa.Instruction) []Val {
		b, s := args[0][0], args[1][0]
		builderSetC(e, st, callee, b, e.strcat(st, builderGetC(e, st, callee, b), s))
		return []Val{{strLen(s)}, {IntC(0), IntC(0)}}
	}
	modelTable["(*strings.Builder).WriteByte"] = func(e *Engine, st *State, fr *Frame, callee *ssa.Function, args []Val, at ssa.Instruction) []Val {
		b, c := args[0][0], args[1][0]
		var cs *Term
		if k, ok := c.ConstInt(); ok && k < 128 {
			cs = internStr(string(rune(k)))
			// the byte s[i] of a string, appended to the prefix s[:i], gives the prefix s[:i+1]
			// (for the string index reads of this path whose value the path condition fixed to k)
			lo := 0
			if os.Getenv("GOVC_DEBUG_WB") != "" { fmt.Fprintf(os.Stderr, "WriteByte const %d recs=%d\n", k, len(st.strIdx)) }
			if len(st.strIdx) > 8 {
				lo = len(st.strIdx) - 8
			}
			for _, rec := range st.strIdx[lo:] {
				inb := And(Le(IntC(0), rec.i), Lt(rec.i, strLen(rec.s)), Eq(rec.b, c))
				e.fact(st, Implies(inb, Eq(App("strcat", SInt, App("substr", SInt, rec.s, IntC(0), rec.i), cs), App("substr", SInt, rec.s, IntC(0), Add(rec.i, IntC(1))))))
			}
		} else {
			cs = App("bytestr", SInt, c)
			e.fact(st, Le(IntC(0), cs))
			e.fact(st, Eq(strLen(cs), IntC(1)))
			e.fact(st, Eq(strByte(cs, IntC(0)), c))
			// the byte s[i] of a string, appended to the prefix s[:i], gives the prefix s[:i+1]
			if c.Op == "select" && len(c.Args) == 2 && c.Args[0].Op == "app" && c.Args[0].Name == "strbytes" {
				src, i := c.Args[0].Args[0], c.Args[1]
				inb := And(Le(IntC(0), i), Lt(i, strLen(src)))
				e.fact(st, Implies(inb, Eq(App("strcat", SInt, App("substr", SInt, src, IntC(0), i), cs), App("substr", SInt, src, IntC(0), Add(i, IntC(1))))))
			}
		}
		builderSetC(e, st, callee, b, e.strcat(st, builderGetC(e, st, callee, b), cs))
		return []Val{{IntC(0), IntC(0)}}
	}
	modelTable["(*strings.Builder).String"] = func(e *Engine, st *State, fr *Frame, callee *ssa.Function, args []Val, at ssa.Instruction) []Val {
		r := builderGetC(e, st, callee, args[0][0])
		if !r.IsConst() {
			e.fact(st, Le(IntC(0), r))
		}
		return []Val{{r}}
	}
	modelTable["(*strings.Builder).Len"] = func(e *Engine, st *State, fr *Frame, callee *ssa.Function, args []Val, at ssa.Instruction) []Val {
		return []Val{{strLen(builderGetC(e, st, callee, args[0][0]))}}
	}
	modelTable["(*strings.Builder).Reset"] = func(e *Engine, st *State, fr *Frame, callee *ssa.Function, args []Val, at ssa.Instruction) []Val {
		builderSetC(e, st, callee, args[0][0], internStr(""))
		return nil
	}
	for _, n := range []string{"WriteRune", "WriteString", "WriteByte", "Reset"} {
		modelWrites["(*strings.Builder)."+n] = "strings.Builder|"
	}
}
