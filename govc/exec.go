package main

import (
	"fmt"
	"os"
	"go/constant"
	"go/token"
	"go/types"
	"math/big"
	"strings"

	"golang.org/x/tools/go/ssa"
)

type Mode int

const (
	ModeVerify Mode = iota
	ModeSpec
)

type Obligation struct {
	Name   string // clause-level name, e.g. "mir.alignTo.ensures#0"
	Kind   string // ensures | requires-at-call | invariant-entry | invariant-preserved | decreases | safety | overflow | frame | assert
	Where  string // source position
	PC     []*Term
	Goal   *Term
	Func   string
	Result *SolveResult
	File   string
	Inputs []*Term // terms whose model values are wanted
	GetValues []*Term
	Trivial bool
}

type EngineError struct{ msg string }

func (e *EngineError) Error() string { return e.msg }

func engineErr(f string, a ...any) { panic(&EngineError{fmt.Sprintf(f, a...)}) }

type Engine struct {
	W        *World
	Feas     *Feas
	Obls     []*Obligation
	oblSeen  map[string]bool
	Trivial  map[string]int // clause name -> trivially discharged instances
	Mode     Mode
	frameSeq int
	// per top-level run
	TopFn      *ssa.Function
	TopFC      *FuncContract
	topFrame   *frameSpec
	catDepth   int
	Paths      int
	MaxPaths   int
	MaxSteps   int
	Inlined    map[string]int
	Havocked   map[string]int
	UsedSpecs  map[string]int
	AssumedDep map[string]int
	Notes      []string
	specDepth  int
	closures   map[int64]*closure
	loops      map[*ssa.Function]*loopInfo
	modsets    map[*ssa.Function]map[string]bool
	// spec-mode collection
	specOut   []specRet
	facts     []*Term // side facts produced while evaluating specs (pure callee postconditions)
	preHeap   *Heap
	oldCurHeap *Heap // heap current at the old() call (for locals of the specification)
	entryArgs []Val
	onReturn  func(st *State, fr *Frame, results []Val)
	inlineCap int
	trivialAll []trivRec
	unfolding map[*ssa.Function]bool
	readsets  map[*ssa.Function]map[string]bool
	prepass   map[*ssa.Function]bool
	recReads  map[*ssa.Function][]recRead
	pureReads map[*ssa.Function][]recRead
	ghostRec  map[*ssa.Function]bool
}

type closure struct {
	fn       *ssa.Function
	bindings []Val
}

type specRet struct {
	pc  []*Term
	val Val
}

func NewEngine(w *World) *Engine {
	return &Engine{W: w, oblSeen: map[string]bool{}, Trivial: map[string]int{}, Inlined: map[string]int{},
		Havocked: map[string]int{}, UsedSpecs: map[string]int{}, AssumedDep: map[string]int{},
		closures: map[int64]*closure{}, loops: map[*ssa.Function]*loopInfo{}, modsets: map[*ssa.Function]map[string]bool{},
		MaxPaths: 20000, MaxSteps: 400000, inlineCap: 400, unfolding: map[*ssa.Function]bool{}, prepass: map[*ssa.Function]bool{}, recReads: map[*ssa.Function][]recRead{}, pureReads: map[*ssa.Function][]recRead{}, ghostRec: map[*ssa.Function]bool{}}
}

func (e *Engine) pos(p token.Pos) string {
	if !p.IsValid() || e.W.Fset == nil {
		return ""
	}
	ps := e.W.Fset.Position(p)
	f := ps.Filename
	if strings.HasPrefix(f, e.W.Repo+"/") {
		f = f[len(e.W.Repo)+1:]
	}
	return fmt.Sprintf("%s:%d", f, ps.Line)
}

func (e *Engine) newFrame(fn *ssa.Function, args []Val) *Frame {
	e.frameSeq++
	fr := &Frame{fn: fn, id: e.frameSeq, env: map[ssa.Value]Val{}, visits: map[int]int{}, loopEntry: map[int]*loopSnap{}, args: args}
	if len(fn.Blocks) > 0 {
		fr.block = fn.Blocks[0]
	}
	for i, p := range fn.Params {
		fr.env[p] = args[i]
	}
	return fr
}

// oblige records a proof obligation `pc ==> goal` and then assumes the goal.
func (e *Engine) oblige(st *State, name, kind string, where token.Pos, goal *Term) {
	if e.Mode == ModeSpec {
		return
	}
	e.drainFramed(st)
	g := st.norm(goal)
	if g.IsTrue() {
		e.Trivial[name]++
		return
	}
	fn := ""
	if e.TopFn != nil {
		fn = e.TopFn.String()
	}
	// one VC per conjunct of the goal (also under a leading universal quantifier): the
	// hypotheses stay the same, each query is smaller and far more stable across solvers
	for _, part := range splitGoal(g) {
		var key strings.Builder
		key.WriteString(name)
		fmt.Fprintf(&key, "|%d|", part.id)
		for _, p := range st.pc {
			fmt.Fprintf(&key, "%d,", p.id)
		}
		if !e.oblSeen[key.String()] {
			e.oblSeen[key.String()] = true
			e.Obls = append(e.Obls, &Obligation{Name: name, Kind: kind, Where: e.pos(where), PC: append([]*Term{}, st.pc...), Goal: part, Func: fn})
		}
	}
	st.assume(g)
}

// splitGoal splits a goal into its conjuncts, looking through one leading forall and the
// consequent of an implication.
func splitGoal(g *Term) []*Term {
	switch g.Op {
	case "and":
		var out []*Term
		for _, a := range g.Args {
			out = append(out, splitGoal(a)...)
		}
		return out
	case "forall":
		body := g.Args[0]
		var out []*Term
		for _, p := range splitGoal(body) {
			out = append(out, Forall(g.Bound, p))
		}
		if len(out) > 1 {
			return out
		}
	case "=>":
		parts := splitGoal(g.Args[1])
		if len(parts) > 1 {
			var out []*Term
			for _, p := range parts {
				out = append(out, Implies(g.Args[0], p))
			}
			return out
		}
	}
	return []*Term{g}
}

// ---------------------------------------------------------------- main loop

// explore runs all paths from st to completion (depth first).
func (e *Engine) explore(st *State) {
	work := []*State{st}
	for len(work) > 0 {
		s := work[len(work)-1]
		work = work[:len(work)-1]
		for !s.dead {
			forks := e.stepSafe(s)
			if forks != nil {
				for i := len(forks) - 1; i >= 0; i-- {
					work = append(work, forks[i])
				}
				break
			}
		}
		if s.dead {
			e.Paths++
			if e.Paths > e.MaxPaths {
				engineErr("path cap %d exceeded in %s (needs a helper contract or an invariant)", e.MaxPaths, e.TopFn)
			}
		}
	}
}

// stepSafe executes one instruction; on a fork request it returns the successor states.
func (e *Engine) stepSafe(st *State) (forks []*State) {
	defer func() {
		if r := recover(); r != nil {
			fq, ok := r.(*forkRequest)
			if !ok {
				panic(r)
			}
			forks = []*State{}
			for _, alt := range fq.alts {
				n := st.clone()
				n.assume(alt)
				if e.Mode == ModeSpec || e.Feas.Feasible(n.pc) {
					forks = append(forks, n)
				}
			}
		}
	}()
	st.steps++
	if st.steps > e.MaxSteps {
		engineErr("step cap exceeded in %s", e.TopFn)
	}
	e.step(st)
	return nil
}

func (e *Engine) get(st *State, fr *Frame, v ssa.Value) Val {
	switch x := v.(type) {
	case *ssa.Const:
		if x.Value == nil {
			return zeroVal(x.Type())
		}
		return constVal(x.Value, x.Type())
	case *ssa.Function:
		return Val{e.funcValue(x, nil)}
	case *ssa.Global:
		// address of a global: a distinct pre-existing object of the global's type
		key := "global:" + x.String()
		id, ok := locIDs[key]
		if !ok {
			id = newObjID()
			locIDs[key] = id
		}
		return Val{IntC(id)}
	case *ssa.Builtin:
		unsupported("builtin %s used as value", x.Name())
	}
	val, ok := fr.env[v]
	if !ok {
		engineErr("value %s (%T) of %s not bound", v.Name(), v, fr.fn)
	}
	return st.normVal(val)
}

func (e *Engine) funcValue(fn *ssa.Function, bindings []Val) *Term {
	key := fmt.Sprintf("fn:%p", fn)
	if bindings == nil {
		if id, ok := locIDs[key]; ok {
			return IntC(id)
		}
		id := newObjID()
		locIDs[key] = id
		e.closures[id] = &closure{fn: fn}
		return IntC(id)
	}
	id := newObjID()
	e.closures[id] = &closure{fn: fn, bindings: bindings}
	return IntC(id)
}

func (e *Engine) resolvePtr(st *State, p *Term, elem types.Type) *Loc {
	p = st.concretize(p)
	if c, ok := p.ConstInt(); ok {
		if l, ok := locTab[c]; ok {
			return l
		}
	}
	return &Loc{Prefix: typeName(elem) + "|", Keys: []*Term{p}}
}

func (e *Engine) nilCheck(st *State, p *Term, where token.Pos, what string) {
	if e.Mode == ModeSpec {
		return
	}
	e.oblige(st, e.safetyName("nil-deref"), "safety", where, Ne(p, IntC(0)))
}

func (e *Engine) safetyName(kind string) string {
	return shortFn(e.TopFn) + ".safety:" + kind
}

func shortFn(fn *ssa.Function) string {
	if fn == nil {
		return "?"
	}
	s := fn.String()
	s = strings.ReplaceAll(s, "compiler/internal/", "")
	s = strings.ReplaceAll(s, "compiler/", "")
	return s
}

func (e *Engine) load(st *State, l *Loc, t types.Type) Val {
	if l.IsCell {
		c, ok := st.cells[l.Cell]
		if !ok {
			engineErr("cell %s not initialised", l.Cell.alloc.Comment)
		}
		n := nLeaves(t)
		return st.normVal(c[l.Off : l.Off+n])
	}
	v := st.normVal(st.heap.read(l, t))
	ls := leavesOf(t)
	for i, lf := range ls {
		if v[i].Op == "select" && !v[i].hasBV {
			for _, f := range leafAssume(v[i], lf) {
				e.fact(st, f)
			}
		}
	}
	for i := 0; i+1 < len(ls) && os.Getenv("GOVC_NONILCANON") == ""; i++ {
		if ls[i].Kind == LTag && ls[i+1].Kind == LData && v[i].Op == "select" && !v[i].hasBV {
			e.fact(st, Implies(Eq(v[i], IntC(0)), Eq(v[i+1], IntC(0))))
		}
	}
	return v
}

func (e *Engine) store(st *State, l *Loc, t types.Type, v Val) {
	if l.IsCell {
		c := st.cells[l.Cell]
		nc := append(Val{}, c...)
		copy(nc[l.Off:], v)
		st.cells[l.Cell] = nc
		return
	}
	st.heap.write(l, t, v)
}

func derefType(t types.Type) types.Type {
	if p, ok := t.Underlying().(*types.Pointer); ok {
		return p.Elem()
	}
	panic("derefType of non-pointer " + t.String())
}

func (e *Engine) step(st *State) {
	fr := st.top()
	if fr.block == nil {
		engineErr("function %s has no body", fr.fn)
	}
	if fr.ip == 0 && !fr.inDefers {
		if e.enterBlock(st, fr) {
			return
		}
	}
	ins := fr.block.Instrs[fr.ip]
	switch x := ins.(type) {
	case *ssa.DebugRef:
	case *ssa.Alloc:
		e.doAlloc(st, fr, x)
	case *ssa.Store:
		addr := e.get(st, fr, x.Addr)[0]
		val := e.get(st, fr, x.Val)
		e.nilCheck(st, addr, x.Pos(), "store")
		l := e.resolvePtr(st, addr, derefType(x.Addr.Type()))
		e.store(st, l, derefType(x.Addr.Type()), val)
	case *ssa.UnOp:
		fr.env[x] = e.doUnOp(st, fr, x)
	case *ssa.BinOp:
		fr.env[x] = e.doBinOp(st, fr, x)
	case *ssa.FieldAddr:
		base := e.get(st, fr, x.X)[0]
		stT := derefType(x.X.Type())
		e.nilCheck(st, base, x.Pos(), "field")
		l := e.resolvePtr(st, base, stT)
		fr.env[x] = Val{locID(fieldLoc(l, stT.Underlying().(*types.Struct), x.Field))}
	case *ssa.Field:
		v := e.get(st, fr, x.X)
		s := x.X.Type().Underlying().(*types.Struct)
		off := fieldOffset(s, x.Field)
		fr.env[x] = v[off : off+nLeaves(s.Field(x.Field).Type())]
	case *ssa.IndexAddr:
		fr.env[x] = e.doIndexAddr(st, fr, x)
	case *ssa.Index:
		fr.env[x] = e.doIndex(st, fr, x)
	case *ssa.Lookup:
		fr.env[x] = e.doLookup(st, fr, x)
	case *ssa.Slice:
		fr.env[x] = e.doSlice(st, fr, x)
	case *ssa.MakeSlice:
		n := e.get(st, fr, x.Len)[0]
		e.oblige(st, e.safetyName("makeslice-len"), "safety", x.Pos(), Le(IntC(0), n))
		fr.env[x] = e.newSlice(st, x.Type().Underlying().(*types.Slice).Elem(), n)
	case *ssa.MakeMap:
		fr.env[x] = Val{e.newMap(st, x.Type().Underlying().(*types.Map))}
	case *ssa.MakeInterface:
		fr.env[x] = e.makeIface(st, x.X.Type(), e.get(st, fr, x.X))
	case *ssa.MakeClosure:
		var bs []Val
		for _, b := range x.Bindings {
			bs = append(bs, e.get(st, fr, b))
		}
		fr.env[x] = Val{e.funcValue(x.Fn.(*ssa.Function), bs)}
	case *ssa.ChangeType:
		fr.env[x] = e.get(st, fr, x.X)
	case *ssa.ChangeInterface:
		fr.env[x] = e.get(st, fr, x.X)
	case *ssa.Convert:
		fr.env[x] = e.doConvert(st, fr, x)
	case *ssa.TypeAssert:
		fr.env[x] = e.doTypeAssert(st, fr, x)
	case *ssa.Extract:
		tup := x.Tuple.Type().(*types.Tuple)
		v := e.get(st, fr, x.Tuple)
		off := tupleOffset(tup, x.Index)
		fr.env[x] = v[off : off+nLeaves(tup.At(x.Index).Type())]
	case *ssa.Phi:
		found := false
		for i, p := range fr.block.Preds {
			if p == fr.prev {
				fr.env[x] = e.get(st, fr, x.Edges[i])
				found = true
				break
			}
		}
		if !found {
			engineErr("phi without matching predecessor in %s", fr.fn)
		}
	case *ssa.MapUpdate:
		e.doMapUpdate(st, fr, x)
	case *ssa.Range:
		fr.env[x] = e.doRange(st, fr, x)
	case *ssa.Next:
		fr.env[x] = e.doNext(st, fr, x)
	case *ssa.Call:
		if e.doCall(st, fr, x, &x.Call, x) {
			return // frame pushed or path ended; ip handled there
		}
	case *ssa.Defer:
		fr.defers = append(fr.defers, x)
		snap := map[ssa.Value]Val{}
		for _, a := range x.Call.Args {
			if _, isC := a.(*ssa.Const); !isC {
				if _, isF := a.(*ssa.Function); !isF {
					snap[a] = e.get(st, fr, a)
				}
			}
		}
		if x.Call.Value != nil {
			if _, isF := x.Call.Value.(*ssa.Function); !isF {
				if _, isB := x.Call.Value.(*ssa.Builtin); !isB {
					snap[x.Call.Value] = e.get(st, fr, x.Call.Value)
				}
			}
		}
		fr.deferEnv = append(fr.deferEnv, snap)
	case *ssa.RunDefers:
		if len(fr.defers) > 0 {
			d := fr.defers[len(fr.defers)-1]
			snap := fr.deferEnv[len(fr.deferEnv)-1]
			fr.defers = fr.defers[:len(fr.defers)-1]
			fr.deferEnv = fr.deferEnv[:len(fr.deferEnv)-1]
			for k, v := range snap {
				fr.env[k] = v
			}
			// stay on this instruction until all defers have run
			if e.doCall(st, fr, nil, &d.Call, x) {
				return
			}
			return
		}
	case *ssa.Go:
		// the spawned goroutine is not executed: its effects are not part of this function's
		// sequential contract (whatever it writes later is interference, not a postcondition)
		e.Notes = append(e.Notes, fmt.Sprintf("go statement at %s: goroutine body not executed", e.pos(x.Pos())))
	case *ssa.Send, *ssa.Select, *ssa.MakeChan:
		unsupported("channel operation in %s", fr.fn)
	case *ssa.Panic:
		e.doPanic(st, fr, x)
		return
	case *ssa.Jump:
		e.jump(st, fr, fr.block.Succs[0])
		return
	case *ssa.If:
		c := e.get(st, fr, x.Cond)[0]
		if cn := st.norm(c); !cn.IsTrue() && !cn.IsFalse() && e.Mode != ModeSpec && e.inUncontractedLoop(fr) {
			// symbolic only if both outcomes are possible under the path condition
			if e.Feas.Feasible(append(append([]*Term{}, st.pc...), cn)) && e.Feas.Feasible(append(append([]*Term{}, st.pc...), Not(cn))) {
				// a counter compared with a bound that the path condition limits to a small constant
				// (a slice taken from a table, say) still gives a bounded trip count: keep unrolling
				bounded := false
				if (cn.Op == "<" || cn.Op == "<=") && len(cn.Args) == 2 && cn.Args[0].Op == "int" && !cn.Args[1].hasQ {
					bounded = !e.Feas.Feasible(append(append([]*Term{}, st.pc...), Lt(IntC(64), cn.Args[1])))
				}
				if !bounded {
					if os.Getenv("GOVC_DEBUGLOOP") != "" {
						fmt.Fprintf(os.Stderr, "symbolic exit test at %s: %s\n", e.pos(x.Pos()), cn.String())
					}
					e.markSymbolicExit(fr)
				}
			}
		}
		if st.decide(c) {
			e.jump(st, fr, fr.block.Succs[0])
		} else {
			e.jump(st, fr, fr.block.Succs[1])
		}
		return
	case *ssa.Return:
		var rs []Val
		for _, r := range x.Results {
			rs = append(rs, e.get(st, fr, r))
		}
		e.doReturn(st, fr, rs)
		return
	case *ssa.SliceToArrayPointer, *ssa.MultiConvert:
		unsupported("%T in %s", x, fr.fn)
	default:
		unsupported("instruction %T in %s", ins, fr.fn)
	}
	fr.ip++
}

// markSymbolicExit records, for every contract-less loop that contains the current block and that
// this branch can leave, that its trip count depends on a symbolic condition (such a loop is cut
// with the trivial invariant after a few iterations instead of being unrolled).
func (e *Engine) markSymbolicExit(fr *Frame) {
	li := e.loopsOf(fr.fn)
	for idx, ld := range li.byHeader {
		// only the test in the loop's header decides the trip count; a symbolic early exit from the
		// body (return / break under a data-dependent condition) does not make the loop unbounded
		if ld.contract != nil || ld.header != fr.block {
			continue
		}
		for _, s := range fr.block.Succs {
			if !ld.blocks[s] {
				if fr.symExit == nil {
					fr.symExit = map[int]bool{}
				}
				fr.symExit[idx] = true
			}
		}
	}
}

func (e *Engine) inUncontractedLoop(fr *Frame) bool {
	for _, ld := range e.loopsOf(fr.fn).byHeader {
		if ld.contract == nil && ld.header == fr.block {
			return true
		}
	}
	return false
}

func (e *Engine) jump(st *State, fr *Frame, to *ssa.BasicBlock) {
	fr.prev = fr.block
	fr.block = to
	fr.ip = 0
}

func fieldLoc(l *Loc, s *types.Struct, idx int) *Loc {
	f := s.Field(idx)
	if l.IsCell {
		return &Loc{IsCell: true, Cell: l.Cell, Off: l.Off + fieldOffset(s, idx)}
	}
	p := l.Prefix + f.Name()
	if _, ok := f.Type().Underlying().(*types.Struct); ok {
		p += "."
	}
	return &Loc{Prefix: p, Keys: l.Keys}
}

func (e *Engine) doAlloc(st *State, fr *Frame, x *ssa.Alloc) {
	t := derefType(x.Type())
	if strings.Contains(t.String(), "$ssa.deferStack") || strings.Contains(t.String(), "deferStack") {
		ck := cellKey{fr.id, x}
		st.cells[ck] = Val{IntC(0)}
		fr.env[x] = Val{locID(&Loc{IsCell: true, Cell: ck})}
		return
	}
	if !x.Heap {
		ck := cellKey{fr.id, x}
		st.cells[ck] = zeroVal(t)
		fr.env[x] = Val{locID(&Loc{IsCell: true, Cell: ck})}
		return
	}
	fr.env[x] = Val{e.newObject(st, t)}
}

// newObject allocates a fresh zeroed heap object of type t and returns its ref.
func (e *Engine) newObject(st *State, t types.Type) *Term {
	id := IntC(newObjID())
	if a, ok := t.Underlying().(*types.Array); ok {
		if _, named := t.(*types.Named); !named {
			prefix := "[]" + typeName(a.Elem()) + "|"
			for _, lf := range leavesOf(a.Elem()) {
				name := prefix + lf.Path
				arr := st.heap.get(name, nestedSort(lf.Sort, 2))
				var z *Term = IntC(0)
				if lf.Sort == SBool {
					z = tFalse
				}
				st.heap.arr[name] = Store(arr, id, ConstArr(ArrSort(lf.Sort), z))
			}
			return id
		}
	}
	st.heap.write(&Loc{Prefix: typeName(t) + "|", Keys: []*Term{id}}, t, zeroVal(t))
	if typeName(t) == "math/big.Int" {
		bigSet(st, id, IntC(0))
	}

	return id
}

func (e *Engine) newSlice(st *State, elem types.Type, n *Term) Val {
	id := IntC(newObjID())
	prefix := "[]" + typeName(elem) + "|"
	for _, lf := range leavesOf(elem) {
		name := prefix + lf.Path
		arr := st.heap.get(name, nestedSort(lf.Sort, 2))
		var z *Term = IntC(0)
		if lf.Sort == SBool {
			z = tFalse
		}
		st.heap.arr[name] = Store(arr, id, ConstArr(ArrSort(lf.Sort), z))
	}
	return Val{id, IntC(0), n}
}

func mapPrefix(m *types.Map) string { return typeName(m) + "|" }

func (e *Engine) newMap(st *State, m *types.Map) *Term {
	if len(leavesOf(m.Key())) != 1 {
		unsupported("map key type %s", m.Key())
	}
	id := IntC(newObjID())
	p := mapPrefix(m)
	has := st.heap.get(p+"has", nestedSort(SBool, 2))
	st.heap.arr[p+"has"] = Store(has, id, ConstArr(ArrSort(SBool), tFalse))
	ln := st.heap.get(p+"len", nestedSort(SInt, 1))
	st.heap.arr[p+"len"] = Store(ln, id, IntC(0))
	return id
}

func keyTerm(k Val) *Term {
	if len(k) != 1 {
		unsupported("composite map key")
	}
	if k[0].Sort == SBool {
		return Ite(k[0], IntC(1), IntC(0))
	}
	return k[0]
}

// mapKeys returns the concrete key list of a map whose `has` array is a store chain over a
// constant-false array with constant keys; ok=false otherwise.
func mapKeys(has *Term) (keys []*Term, ok bool) {
	seen := map[*Term]bool{}
	for {
		switch has.Op {
		case "store":
			k := has.Args[1]
			if !k.IsConst() {
				return nil, false
			}
			if !seen[k] {
				seen[k] = true
				if has.Args[2].IsTrue() {
					keys = append(keys, k)
				} else if !has.Args[2].IsFalse() {
					return nil, false
				}
			}
			has = has.Args[0]
		case "constarr":
			if !has.Args[0].IsFalse() {
				return nil, false
			}
			// reverse to insertion order
			for i, j := 0, len(keys)-1; i < j; i, j = i+1, j-1 {
				keys[i], keys[j] = keys[j], keys[i]
			}
			return keys, true
		default:
			return nil, false
		}
	}
}

func (e *Engine) mapLookup(st *State, m *types.Map, ref, key *Term) (Val, *Term) {
	p := mapPrefix(m)
	hasArr := st.norm(Select(st.heap.get(p+"has", nestedSort(SBool, 2)), ref))
	if !key.IsConst() {
		if keys, ok := mapKeys(hasArr); ok && len(keys) > 0 && len(keys) <= 64 {
			var alts []*Term
			var none []*Term
			for _, k := range keys {
				alts = append(alts, Eq(key, k))
				none = append(none, Ne(key, k))
			}
			alts = append(alts, And(none...))
			if !st.norm(And(none...)).IsTrue() {
				panic(&forkRequest{alts})
			}
			// key is known to differ from every key of the map
			return zeroVal(m.Elem()), tFalse
		}
	}
	has := And(Ne(ref, IntC(0)), Select(hasArr, key))
	if !has.IsConst() && !has.hasQ {
		// a map that holds a key is not empty
		ln := Select(st.heap.get(p+"len", nestedSort(SInt, 1)), ref)
		e.fact(st, Implies(has, Le(IntC(1), ln)))
	}
	ls := leavesOf(m.Elem())
	out := make(Val, len(ls))
	zero := zeroVal(m.Elem())
	for i, lf := range ls {
		arr := st.heap.get(p+"val."+lf.Path, nestedSort(lf.Sort, 2))
		sel := Select(Select(arr, ref), key)
		if sel.Op == "select" && !sel.hasBV {
			// the stored value is an unknown of its type: same range / sign facts as any heap read
			for _, f := range leafAssume(sel, lf) {
				e.fact(st, f)
			}
		}
		out[i] = Ite(has, sel, zero[i])
	}
	return st.normVal(out), st.norm(has)
}

func (e *Engine) doMapUpdate(st *State, fr *Frame, x *ssa.MapUpdate) {
	m := x.Map.Type().Underlying().(*types.Map)
	ref := e.get(st, fr, x.Map)[0]
	key := keyTerm(e.get(st, fr, x.Key))
	val := e.get(st, fr, x.Value)
	e.oblige(st, e.safetyName("nil-map-write"), "safety", x.Pos(), Ne(ref, IntC(0)))
	e.mapStore(st, m, ref, key, val)
}

func (e *Engine) mapStore(st *State, m *types.Map, ref, key *Term, val Val) {
	p := mapPrefix(m)
	hasA := st.heap.get(p+"has", nestedSort(SBool, 2))
	had := Select(Select(hasA, ref), key)
	lenA := st.heap.get(p+"len", nestedSort(SInt, 1))
	st.heap.arr[p+"len"] = Store(lenA, ref, Add(Select(lenA, ref), Ite(had, IntC(0), IntC(1))))
	st.heap.arr[p+"has"] = Store(hasA, ref, Store(Select(hasA, ref), key, tTrue))
	for i, lf := range leavesOf(m.Elem()) {
		name := p + "val." + lf.Path
		arr := st.heap.get(name, nestedSort(lf.Sort, 2))
		st.heap.arr[name] = Store(arr, ref, Store(Select(arr, ref), key, val[i]))
	}
}

func (e *Engine) mapDelete(st *State, m *types.Map, ref, key *Term) {
	p := mapPrefix(m)
	hasA := st.heap.get(p+"has", nestedSort(SBool, 2))
	had := Select(Select(hasA, ref), key)
	lenA := st.heap.get(p+"len", nestedSort(SInt, 1))
	st.heap.arr[p+"len"] = Store(lenA, ref, Sub(Select(lenA, ref), Ite(had, IntC(1), IntC(0))))
	st.heap.arr[p+"has"] = Store(hasA, ref, Store(Select(hasA, ref), key, tFalse))
}

func (e *Engine) mapLen(st *State, m *types.Map, ref *Term) *Term {
	p := mapPrefix(m)
	return Ite(Eq(ref, IntC(0)), IntC(0), Select(st.heap.get(p+"len", nestedSort(SInt, 1)), ref))
}

func (e *Engine) makeIface(st *State, t types.Type, v Val) Val {
	if _, ok := t.Underlying().(*types.Interface); ok {
		return v
	}
	tag := IntC(typeID(t))
	if len(v) == 1 {
		d := v[0]
		if d.Sort == SBool {
			d = Ite(d, IntC(1), IntC(0))
		}
		return Val{tag, d}
	}
	ref := e.newObject(st, t)
	st.heap.write(&Loc{Prefix: typeName(t) + "|", Keys: []*Term{ref}}, t, v)
	return Val{tag, ref}
}

// unbox extracts a value of concrete type t from interface data word d.
func (e *Engine) unbox(st *State, t types.Type, d *Term) Val {
	ls := leavesOf(t)
	if len(ls) == 1 {
		if ls[0].Sort == SBool {
			return Val{Ne(d, IntC(0))}
		}
		return Val{d}
	}
	return e.load(st, &Loc{Prefix: typeName(t) + "|", Keys: []*Term{d}}, t)
}

func (e *Engine) doTypeAssert(st *State, fr *Frame, x *ssa.TypeAssert) Val {
	v := e.get(st, fr, x.X)
	tag, data := v[0], v[1]
	if it, ok := x.AssertedType.Underlying().(*types.Interface); ok {
		// interface-to-interface assertion
		tag = st.concretize(tag)
		var okT *Term
		if c, isC := tag.ConstInt(); isC {
			if c == 0 {
				okT = tFalse
			} else {
				okT = BoolC(types.Implements(typeByID[c], it))
			}
		} else {
			impls := e.implementers(it)
			var alts []*Term
			for _, im := range impls {
				alts = append(alts, Eq(tag, IntC(typeID(im))))
			}
			okT = Or(alts...)
			if it.NumMethods() == 0 {
				okT = Ne(tag, IntC(0))
			}
		}
		if x.CommaOk {
			return Val{Ite(okT, tag, IntC(0)), Ite(okT, data, IntC(0)), okT}
		}
		e.oblige(st, e.safetyName("type-assert"), "safety", x.Pos(), okT)
		return Val{tag, data}
	}
	id := IntC(typeID(x.AssertedType))
	okT := st.norm(Eq(tag, id))
	if _, isPtr := x.AssertedType.Underlying().(*types.Pointer); isPtr && e.inModuleIface(x.X.Type()) && !okT.IsFalse() {
		// assumption: module interfaces never hold typed nil pointers
		e.AssumedDep["no typed-nil pointer inside a module interface value"]++
		e.fact(st, Implies(okT, Ne(data, IntC(0))))
	}
	if _, isPtr := x.AssertedType.Underlying().(*types.Pointer); isPtr && (data.Op == "select" || data.Op == "var") && !data.hasBV {
		// a pointer read out of a pre-existing (or abstracted) interface value refers to an object
		// that this execution did not allocate: unknown references are non-negative, fresh ones negative
		e.fact(st, Implies(okT, Le(IntC(0), data)))
	}
	if x.CommaOk {
		var val Val
		if okT.IsFalse() {
			val = zeroVal(x.AssertedType)
		} else if okT.IsTrue() {
			val = e.unbox(st, x.AssertedType, data)
		} else {
			// decide now so that unboxing happens only on the matching path
			if st.decide(okT) {
				val = e.unbox(st, x.AssertedType, data)
			} else {
				val = zeroVal(x.AssertedType)
			}
			okT = st.norm(okT)
		}
		return append(append(Val{}, val...), okT)
	}
	e.oblige(st, e.safetyName("type-assert"), "safety", x.Pos(), okT)
	return e.unbox(st, x.AssertedType, data)
}

var implCache = map[*types.Interface][]types.Type{}

// implementers lists the concrete types of the loaded module (and a few std ones) that
// implement the interface — the closed world assumed for symbolic interface values.
func (e *Engine) implementers(it *types.Interface) []types.Type {
	if r, ok := implCache[it]; ok {
		return r
	}
	var out []types.Type
	for _, sp := range e.W.Prog.AllPackages() {
		if !strings.HasPrefix(sp.Pkg.Path(), e.W.ModPath) {
			continue
		}
		for _, m := range sp.Members {
			tn, ok := m.(*ssa.Type)
			if !ok {
				continue
			}
			T := tn.Type()
			if _, isI := T.Underlying().(*types.Interface); isI {
				continue
			}
			if nt, ok := T.(*types.Named); ok && nt.TypeParams() != nil {
				continue
			}
			if types.Implements(T, it) {
				out = append(out, T)
			} else if types.Implements(types.NewPointer(T), it) {
				out = append(out, types.NewPointer(T))
			}
		}
	}
	implCache[it] = out
	return out
}

func (e *Engine) doUnOp(st *State, fr *Frame, x *ssa.UnOp) Val {
	v := e.get(st, fr, x.X)
	switch x.Op {
	case token.MUL:
		t := derefType(x.X.Type())
		e.nilCheck(st, v[0], x.Pos(), "load")
		l := e.resolvePtr(st, v[0], t)
		return e.load(st, l, t)
	case token.NOT:
		return Val{Not(v[0])}
	case token.SUB:
		b := x.Type().Underlying().(*types.Basic)
		if b.Info()&types.IsFloat != 0 {
			return Val{App("fneg", SInt, v[0])}
		}
		return Val{e.arith(st, x.Pos(), Neg(v[0]), b)}
	case token.XOR:
		b := x.Type().Underlying().(*types.Basic)
		lo, _ := intRange(b)
		if lo.Sign() < 0 {
			return Val{Sub(IntC(-1), v[0])}
		}
		_, hi := intRange(b)
		return Val{Sub(BigC(hi), v[0])}
	}
	unsupported("unop %s", x.Op)
	return nil
}

// arith applies the machine-integer discipline to a mathematical result: in verify mode an
// overflow obligation is generated; in spec mode arithmetic is mathematical.
func (e *Engine) arith(st *State, where token.Pos, t *Term, b *types.Basic) *Term {
	if e.Mode == ModeSpec {
		return t
	}
	if b.Info()&types.IsUntyped != 0 {
		return t
	}
	in := st.norm(inRange(t, b))
	if in.IsTrue() {
		return t
	}
	if e.TopFC != nil && e.TopFC.Opts["wraps"] != "" {
		return wrapTo(t, b)
	}
	if e.TopFC != nil && e.TopFC.Opts["math-ints"] != "" {
		e.AssumedDep["machine arithmetic treated as mathematical in "+shortFn(e.TopFn)]++
		return t
	}
	e.oblige(st, shortFn(e.TopFn)+".overflow", "overflow", where, in)
	return t
}

func pow2(k int64) *Term { return BigC(new(big.Int).Lsh(big.NewInt(1), uint(k))) }

func (e *Engine) doBinOp(st *State, fr *Frame, x *ssa.BinOp) Val {
	a := e.get(st, fr, x.X)
	b := e.get(st, fr, x.Y)
	xt := x.X.Type().Underlying()
	switch x.Op {
	case token.EQL, token.NEQ:
		var eq *Term
		if _, isI := xt.(*types.Interface); isI || isIface(x.Y.Type()) {
			av, bv := a, b
			if !isIface(x.X.Type()) {
				av = e.makeIface(st, x.X.Type(), a)
			}
			if !isIface(x.Y.Type()) {
				bv = e.makeIface(st, x.Y.Type(), b)
			}
			// nil interface: tag 0 (data irrelevant)
			eq = And(Eq(av[0], bv[0]), Or(Eq(av[0], IntC(0)), Eq(av[1], bv[1])))
		} else if _, isS := xt.(*types.Slice); isS {
			// only comparison with nil is legal
			if isNilConst(x.Y) {
				eq = Eq(a[0], IntC(0))
			} else {
				eq = Eq(b[0], IntC(0))
			}
		} else if bt, isB := xt.(*types.Basic); isB && bt.Info()&types.IsFloat != 0 {
			if a[0].IsConst() && b[0].IsConst() {
				eq = BoolC(a[0] == b[0])
			} else {
				eq = App("feq", SBool, a[0], b[0])
			}
		} else {
			eq = valEq(a, b)
		}
		if x.Op == token.NEQ {
			return Val{Not(eq)}
		}
		return Val{eq}
	}
	bt, ok := xt.(*types.Basic)
	if !ok {
		unsupported("binop %s on %s", x.Op, xt)
	}
	switch {
	case bt.Info()&types.IsBoolean != 0:
		switch x.Op {
		case token.AND, token.LAND:
			return Val{And(a[0], b[0])}
		case token.OR, token.LOR:
			return Val{Or(a[0], b[0])}
		}
	case bt.Info()&types.IsString != 0:
		return e.stringBinOp(st, x, a[0], b[0])
	case bt.Info()&types.IsFloat != 0:
		switch x.Op {
		case token.LSS:
			return Val{App("flt", SBool, a[0], b[0])}
		case token.LEQ:
			return Val{App("fle", SBool, a[0], b[0])}
		case token.GTR:
			return Val{App("flt", SBool, b[0], a[0])}
		case token.GEQ:
			return Val{App("fle", SBool, b[0], a[0])}
		}
		return Val{App("f"+opName(x.Op), SInt, a[0], b[0])}
	case bt.Info()&types.IsInteger != 0:
		rb, _ := x.Type().Underlying().(*types.Basic)
		p, q := a[0], b[0]
		switch x.Op {
		case token.ADD:
			return Val{e.arith(st, x.Pos(), Add(p, q), rb)}
		case token.SUB:
			return Val{e.arith(st, x.Pos(), Sub(p, q), rb)}
		case token.MUL:
			return Val{e.arith(st, x.Pos(), Mul(p, q), rb)}
		case token.QUO:
			e.oblige(st, e.safetyName("div-by-zero"), "safety", x.Pos(), Ne(q, IntC(0)))
			return Val{e.arith(st, x.Pos(), TQuo(p, q), rb)}
		case token.REM:
			e.oblige(st, e.safetyName("div-by-zero"), "safety", x.Pos(), Ne(q, IntC(0)))
			return Val{TRem(p, q)}
		case token.LSS:
			return Val{Lt(p, q)}
		case token.LEQ:
			return Val{Le(p, q)}
		case token.GTR:
			return Val{Lt(q, p)}
		case token.GEQ:
			return Val{Le(q, p)}
		case token.SHL:
			if k, ok := q.ConstInt(); ok && k >= 0 && k < 512 {
				return Val{wrapTo(Mul(p, pow2(k)), rb)}
			}
		case token.SHR:
			if k, ok := q.ConstInt(); ok && k >= 0 && k < 512 {
				return Val{EDiv(p, pow2(k))}
			}
		case token.AND:
			if r, ok := foldBits(x.Op, p, q); ok {
				return Val{r}
			}
			for _, pr := range [][2]*Term{{p, q}, {q, p}} {
				if m, ok := pr[1].ConstInt(); ok && m >= 0 && (m+1)&m == 0 {
					lo, _ := intRange(rb)
					if lo.Sign() == 0 || st.norm(Le(IntC(0), pr[0])).IsTrue() {
						return Val{EMod(pr[0], IntC(m+1))}
					}
				}
			}
		case token.OR, token.XOR, token.AND_NOT:
			if r, ok := foldBits(x.Op, p, q); ok {
				return Val{r}
			}
		}
		// uninterpreted fallback, constrained to the result type's range
		r := App("bits_"+opName(x.Op)+"_"+rb.Name(), SInt, p, q)
		e.fact(st, inRange(r, rb))
		return Val{r}
	}
	unsupported("binop %s on %s", x.Op, xt)
	return nil
}

func foldBits(op token.Token, p, q *Term) (*Term, bool) {
	if p.Op != "int" || q.Op != "int" {
		return nil, false
	}
	r := new(big.Int)
	switch op {
	case token.AND:
		r.And(p.Int, q.Int)
	case token.OR:
		r.Or(p.Int, q.Int)
	case token.XOR:
		r.Xor(p.Int, q.Int)
	case token.AND_NOT:
		r.AndNot(p.Int, q.Int)
	default:
		return nil, false
	}
	return BigC(r), true
}

func opName(op token.Token) string {
	switch op {
	case token.ADD:
		return "add"
	case token.SUB:
		return "sub"
	case token.MUL:
		return "mul"
	case token.QUO:
		return "div"
	case token.REM:
		return "rem"
	case token.AND:
		return "and"
	case token.OR:
		return "or"
	case token.XOR:
		return "xor"
	case token.SHL:
		return "shl"
	case token.SHR:
		return "shr"
	case token.AND_NOT:
		return "andnot"
	}
	return "op" + fmt.Sprint(int(op))
}

func isIface(t types.Type) bool {
	_, ok := t.Underlying().(*types.Interface)
	return ok
}

func isNilConst(v ssa.Value) bool {
	c, ok := v.(*ssa.Const)
	return ok && c.Value == nil
}

func (e *Engine) stringBinOp(st *State, x *ssa.BinOp, a, b *Term) Val {
	as, aok := strOf(a)
	bs, bok := strOf(b)
	switch x.Op {
	case token.ADD:
		if aok && bok {
			return Val{internStr(as + bs)}
		}
		if aok && as == "" {
			return Val{b}
		}
		if bok && bs == "" {
			return Val{a}
		}
		return Val{e.strcat(st, a, b)}
	case token.LSS, token.LEQ, token.GTR, token.GEQ:
		if aok && bok {
			var r bool
			switch x.Op {
			case token.LSS:
				r = as < bs
			case token.LEQ:
				r = as <= bs
			case token.GTR:
				r = as > bs
			case token.GEQ:
				r = as >= bs
			}
			return Val{BoolC(r)}
		}
		lt := func(p, q *Term) *Term { return App("strlt", SBool, p, q) }
		switch x.Op {
		case token.LSS:
			return Val{lt(a, b)}
		case token.GTR:
			return Val{lt(b, a)}
		case token.LEQ:
			return Val{Not(lt(b, a))}
		default:
			return Val{Not(lt(a, b))}
		}
	}
	unsupported("string op %s", x.Op)
	return nil
}

// strcat builds a concatenation with its length, prefix and suffix facts.
func (e *Engine) strcat(st *State, a, b *Term) *Term {
	as, aok := strOf(a)
	bs, bok := strOf(b)
	if aok && bok {
		return internStr(as + bs)
	}
	if aok && as == "" {
		return b
	}
	if bok && bs == "" {
		return a
	}
	r := App("strcat", SInt, a, b)
	e.fact(st, Eq(strLen(r), Add(strLen(a), strLen(b))))
	e.fact(st, Le(IntC(0), r))
	e.fact(st, Eq(App("substr", SInt, r, IntC(0), strLen(a)), a))
	e.fact(st, Eq(App("substr", SInt, r, strLen(a), strLen(r)), b))
	// bytes of the concatenation
	byteOf := func(s, i *Term) *Term { return strByte(s, i) }
	for _, part := range []struct {
		s, off *Term
	}{{a, IntC(0)}, {b, strLen(a)}} {
		if v, ok := strOf(part.s); ok && len(v) <= 16 {
			for k := 0; k < len(v); k++ {
				e.fact(st, Eq(byteOf(r, Add(part.off, IntC(int64(k)))), IntC(int64(v[k]))))
			}
		} else {
			bv := BVar("j", SInt)
			e.fact(st, Forall([]*Term{bv}, Implies(And(Le(part.off, bv), Lt(bv, Add(part.off, strLen(part.s)))),
				Eq(Select(App("strbytes", ArrSort(SInt), r), bv), Select(App("strbytes", ArrSort(SInt), part.s), Sub(bv, part.off))))))
		}
	}
	// associativity: a right-nested concatenation equals its left-nested form (the form that Go's
	// left-to-right evaluation of a + b + c and successive WriteString calls produce)
	if b.Op == "app" && b.Name == "strcat" && len(b.Args) == 2 && e.catDepth < 12 {
		e.catDepth++
		left := e.strcat(st, e.strcat(st, a, b.Args[0]), b.Args[1])
		e.catDepth--
		e.fact(st, Eq(r, left))
	}
	// Trim(c + x + c, c) == x when the one-character literal c does not occur in x
	if cs, ok := strOf(b); ok && len(cs) == 1 && a.Op == "app" && a.Name == "strcat" && a.Args[0] == b {
		x := a.Args[1]
		bv := BVar("i", SInt)
		tr := App(smtName("strings.Trim"), SInt, r, b)
		e.fact(st, Implies(Forall([]*Term{bv}, Implies(And(Le(IntC(0), bv), Lt(bv, strLen(x))), Ne(Select(App("strbytes", ArrSort(SInt), x), bv), IntC(int64(cs[0]))))), Eq(tr, x)))
	}
	return r
}

func strByte(s, i *Term) *Term {
	if v, ok := strOf(s); ok {
		if k, ok := i.ConstInt(); ok && k >= 0 && int(k) < len(v) {
			return IntC(int64(v[k]))
		}
	}
	return Select(App("strbytes", ArrSort(SInt), s), i)
}

func (e *Engine) doIndexAddr(st *State, fr *Frame, x *ssa.IndexAddr) Val {
	idx := e.get(st, fr, x.Index)[0]
	switch t := x.X.Type().Underlying().(type) {
	case *types.Slice:
		s := e.get(st, fr, x.X)
		e.oblige(st, e.safetyName("index-bounds"), "safety", x.Pos(), And(Le(IntC(0), idx), Lt(idx, s[2])))
		return Val{locID(&Loc{Prefix: "[]" + typeName(t.Elem()) + "|", Keys: []*Term{s[0], Add(s[1], idx)}})}
	case *types.Pointer:
		arr := t.Elem().Underlying().(*types.Array)
		p := e.get(st, fr, x.X)[0]
		e.nilCheck(st, p, x.Pos(), "index")
		e.oblige(st, e.safetyName("index-bounds"), "safety", x.Pos(), And(Le(IntC(0), idx), Lt(idx, IntC(arr.Len()))))
		l := e.resolvePtr(st, p, t.Elem())
		if l.IsCell {
			k, ok := st.concretize(idx).ConstInt()
			if !ok {
				unsupported("symbolic index into local array in %s", fr.fn)
			}
			return Val{locID(&Loc{IsCell: true, Cell: l.Cell, Off: l.Off + int(k)*nLeaves(arr.Elem())})}
		}
		if len(l.Keys) != 1 {
			unsupported("index into embedded array in %s", fr.fn)
		}
		return Val{locID(&Loc{Prefix: "[]" + typeName(arr.Elem()) + "|", Keys: []*Term{l.Keys[0], idx}})}
	}
	unsupported("IndexAddr on %s", x.X.Type())
	return nil
}

func (e *Engine) doIndex(st *State, fr *Frame, x *ssa.Index) Val {
	idx := e.get(st, fr, x.Index)[0]
	v := e.get(st, fr, x.X)
	switch t := x.X.Type().Underlying().(type) {
	case *types.Array:
		e.oblige(st, e.safetyName("index-bounds"), "safety", x.Pos(), And(Le(IntC(0), idx), Lt(idx, IntC(t.Len()))))
		n := nLeaves(t.Elem())
		k, ok := st.concretize(idx).ConstInt()
		if !ok {
			// build ite chain
			out := append(Val{}, v[0:n]...)
			for i := int64(1); i < t.Len(); i++ {
				out = valIte(Eq(idx, IntC(i)), v[int(i)*n:int(i+1)*n], out)
			}
			return out
		}
		return v[int(k)*n : int(k+1)*n]
	case *types.Basic: // string
		e.oblige(st, e.safetyName("index-bounds"), "safety", x.Pos(), And(Le(IntC(0), idx), Lt(idx, strLen(v[0]))))
		r := strByte(v[0], idx)
		if !r.IsConst() {
			e.fact(st, And(Le(IntC(0), r), Le(r, IntC(255))))
			st.strIdx = append(st.strIdx, strIdxRec{v[0], idx, r})
		}
		return Val{r}
	}
	unsupported("Index on %s", x.X.Type())
	return nil
}

func (e *Engine) doLookup(st *State, fr *Frame, x *ssa.Lookup) Val {
	switch t := x.X.Type().Underlying().(type) {
	case *types.Map:
		ref := e.get(st, fr, x.X)[0]
		key := keyTerm(e.get(st, fr, x.Index))
		v, has := e.mapLookup(st, t, ref, key)
		if x.CommaOk {
			return append(append(Val{}, v...), has)
		}
		return v
	case *types.Basic:
		s := e.get(st, fr, x.X)[0]
		idx := e.get(st, fr, x.Index)[0]
		e.oblige(st, e.safetyName("index-bounds"), "safety", x.Pos(), And(Le(IntC(0), idx), Lt(idx, strLen(s))))
		r := strByte(s, idx)
		if !r.IsConst() {
			e.fact(st, And(Le(IntC(0), r), Le(r, IntC(255))))
			st.strIdx = append(st.strIdx, strIdxRec{s, idx, r})
		}
		return Val{r}
	}
	unsupported("Lookup on %s", x.X.Type())
	return nil
}

func (e *Engine) doSlice(st *State, fr *Frame, x *ssa.Slice) Val {
	var lo, hi *Term
	if x.Low != nil {
		lo = e.get(st, fr, x.Low)[0]
	} else {
		lo = IntC(0)
	}
	switch t := x.X.Type().Underlying().(type) {
	case *types.Slice:
		s := e.get(st, fr, x.X)
		if x.High != nil {
			hi = e.get(st, fr, x.High)[0]
		} else {
			hi = s[2]
		}
		// capacity is not modelled: slicing beyond len is reported
		e.oblige(st, e.safetyName("slice-bounds"), "safety", x.Pos(), And(Le(IntC(0), lo), Le(lo, hi), Le(hi, s[2])))
		return Val{s[0], Add(s[1], lo), Sub(hi, lo)}
	case *types.Basic:
		s := e.get(st, fr, x.X)[0]
		if x.High != nil {
			hi = e.get(st, fr, x.High)[0]
		} else {
			hi = strLen(s)
		}
		e.oblige(st, e.safetyName("slice-bounds"), "safety", x.Pos(), And(Le(IntC(0), lo), Le(lo, hi), Le(hi, strLen(s))))
		return Val{e.substr(st, s, lo, hi)}
	case *types.Pointer:
		arr := t.Elem().Underlying().(*types.Array)
		p := e.get(st, fr, x.X)[0]
		if x.High != nil {
			hi = e.get(st, fr, x.High)[0]
		} else {
			hi = IntC(arr.Len())
		}
		e.nilCheck(st, p, x.Pos(), "slice")
		e.oblige(st, e.safetyName("slice-bounds"), "safety", x.Pos(), And(Le(IntC(0), lo), Le(lo, hi), Le(hi, IntC(arr.Len()))))
		l := e.resolvePtr(st, p, t.Elem())
		if l.IsCell || len(l.Keys) != 1 {
			unsupported("slicing a local/embedded array in %s", fr.fn)
		}
		return Val{l.Keys[0], lo, Sub(hi, lo)}
	}
	unsupported("Slice on %s", x.X.Type())
	return nil
}

func (e *Engine) substr(st *State, s, lo, hi *Term) *Term {
	if v, ok := strOf(s); ok {
		l, ok1 := lo.ConstInt()
		h, ok2 := hi.ConstInt()
		if ok1 && ok2 && l >= 0 && l <= h && int(h) <= len(v) {
			return internStr(v[l:h])
		}
	}
	if lo.IsConst() && lo.Int.Sign() == 0 && hi == strLen(s) {
		return s
	}
	if lo == hi {
		return internStr("")
	}
	r := App("substr", SInt, s, lo, hi)
	e.fact(st, Eq(strLen(r), Sub(hi, lo)))
	e.fact(st, Le(IntC(0), r))
	return r
}

func (e *Engine) doConvert(st *State, fr *Frame, x *ssa.Convert) Val {
	v := e.get(st, fr, x.X)
	from := x.X.Type().Underlying()
	to := x.Type().Underlying()
	fb, fok := from.(*types.Basic)
	tb, tok := to.(*types.Basic)
	switch {
	case fok && tok && fb.Info()&types.IsInteger != 0 && tb.Info()&types.IsInteger != 0:
		return Val{wrapTo(v[0], tb)}
	case fok && tok && fb.Info()&types.IsString != 0 && tb.Info()&types.IsString != 0:
		return v
	case fok && tok && fb.Info()&types.IsInteger != 0 && tb.Info()&types.IsString != 0:
		if c, ok := v[0].ConstInt(); ok {
			return Val{internStr(string(rune(c)))}
		}
		r := App("runestr", SInt, v[0])
		e.fact(st, Le(IntC(0), r))
		e.fact(st, And(Le(IntC(1), strLen(r)), Le(strLen(r), IntC(4))))
		return Val{r}
	case fok && tok && fb.Info()&types.IsInteger != 0 && tb.Info()&types.IsFloat != 0:
		if v[0].Op == "int" {
			return Val{internFloat(constant.ToFloat(constant.Make(v[0].Int)).ExactString())}
		}
		return Val{App("itof_"+tb.Name(), SInt, v[0])}
	case fok && tok && fb.Info()&types.IsFloat != 0 && tb.Info()&types.IsInteger != 0:
		r := App("ftoi_"+tb.Name(), SInt, v[0])
		e.fact(st, inRange(r, tb))
		return Val{r}
	case fok && tok && fb.Info()&types.IsFloat != 0 && tb.Info()&types.IsFloat != 0:
		if fb.Kind() == tb.Kind() || tb.Kind() == types.Float64 {
			return v
		}
		return Val{App("ftof_"+tb.Name(), SInt, v[0])}
	}
	if _, ok := to.(*types.Slice); ok && fok && fb.Info()&types.IsString != 0 {
		// []byte(s) / []rune(s)
		elem := to.(*types.Slice).Elem()
		if s, ok := strOf(v[0]); ok {
			if eb, ok := elem.Underlying().(*types.Basic); ok && eb.Kind() == types.Uint8 {
				sl := e.newSlice(st, elem, IntC(int64(len(s))))
				for i := 0; i < len(s); i++ {
					st.heap.write(&Loc{Prefix: "[]" + typeName(elem) + "|", Keys: []*Term{sl[0], IntC(int64(i))}}, elem, Val{IntC(int64(s[i]))})
				}
				return sl
			}
			if eb, ok := elem.Underlying().(*types.Basic); ok && eb.Kind() == types.Int32 {
				rs := []rune(s)
				sl := e.newSlice(st, elem, IntC(int64(len(rs))))
				for i, r := range rs {
					st.heap.write(&Loc{Prefix: "[]" + typeName(elem) + "|", Keys: []*Term{sl[0], IntC(int64(i))}}, elem, Val{IntC(int64(r))})
				}
				return sl
			}
		}
		if eb, ok := elem.Underlying().(*types.Basic); ok && eb.Kind() == types.Uint8 {
			// symbolic: bytes view shares strbytes
			id := IntC(newObjID())
			name := "[]" + typeName(elem) + "|"
			arr := st.heap.get(name, nestedSort(SInt, 2))
			st.heap.arr[name] = Store(arr, id, App("strbytes", ArrSort(SInt), v[0]))
			return Val{id, IntC(0), strLen(v[0])}
		}
	}
	if _, ok := from.(*types.Slice); ok && tok && tb.Info()&types.IsString != 0 {
		r := Fresh("str_of_slice", SInt)
		e.fact(st, Le(IntC(0), r))
		return Val{r}
	}
	if _, ok := to.(*types.Pointer); ok {
		return v
	}
	if tok && tb.Kind() == types.UnsafePointer {
		return v
	}
	unsupported("conversion %s -> %s", x.X.Type(), x.Type())
	return nil
}

func (e *Engine) doPanic(st *State, fr *Frame, x *ssa.Panic) {
	if e.Mode == ModeVerify {
		if e.TopFC == nil || e.TopFC.Opts["may-panic"] == "" {
			e.oblige(st, e.safetyName("explicit-panic"), "safety", x.Pos(), tFalse)
		}
	}
	st.dead = true
}

// ---------------------------------------------------------------- range / next

func (e *Engine) doRange(st *State, fr *Frame, x *ssa.Range) Val {
	id := newObjID()
	v := e.get(st, fr, x.X)
	switch t := x.X.Type().Underlying().(type) {
	case *types.Basic:
		s, ok := strOf(v[0])
		if !ok {
			// symbolic string: the iterator is a byte position; runes are read through the
			// uninterpreted decoding functions runeat/runewidth (see doNext)
			st.iters[id] = &iterState{kind: "strsym", sref: v[0], posT: IntC(0)}
			break
		}
		st.iters[id] = &iterState{kind: "string", str: s}
	case *types.Map:
		p := mapPrefix(t)
		hasArr := st.norm(Select(st.heap.get(p+"has", nestedSort(SBool, 2)), v[0]))
		if keys, ok := mapKeys(hasArr); ok {
			st.iters[id] = &iterState{kind: "mapc", keys: keys, mref: v[0], mtype: t}
			if len(keys) > 1 {
				e.Notes = append(e.Notes, fmt.Sprintf("map range over concrete map iterated in insertion order at %s", e.pos(x.Pos())))
			}
		} else {
			st.iters[id] = &iterState{kind: "maps", mref: v[0], mtype: t, seen: ConstArr(ArrSort(SBool), tFalse)}
		}
	default:
		unsupported("range over %s", x.X.Type())
	}
	return Val{IntC(id)}
}

func (e *Engine) doNext(st *State, fr *Frame, x *ssa.Next) Val {
	itv := e.get(st, fr, x.Iter)[0]
	id, _ := itv.ConstInt()
	it := st.iters[id]
	if it == nil {
		engineErr("unknown iterator in %s", fr.fn)
	}
	tup := x.Type().(*types.Tuple)
	switch it.kind {
	case "string":
		if it.pos >= len(it.str) {
			return Val{tFalse, IntC(0), IntC(0)}
		}
		r, w := decodeRune(it.str[it.pos:])
		out := Val{tTrue, IntC(int64(it.pos)), IntC(int64(r))}
		it.pos += w
		return out
	case "strsym":
		pos := it.posT
		more := st.norm(Lt(pos, strLen(it.sref)))
		r := App("runeat", SInt, it.sref, pos)
		w := App("runewidth", SInt, it.sref, pos)
		b := strByte(it.sref, pos)
		e.fact(st, And(Le(IntC(0), r), Le(r, IntC(0x10FFFF)), Le(IntC(1), w), Le(w, IntC(4))))
		e.fact(st, Implies(more, Le(Add(pos, w), strLen(it.sref))))
		e.fact(st, And(Le(IntC(0), b), Le(b, IntC(255))))
		// ASCII bytes decode to themselves with width 1, and only they decode to ASCII runes
		e.fact(st, Implies(Lt(b, IntC(128)), And(Eq(r, b), Eq(w, IntC(1)))))
		e.fact(st, Implies(Lt(r, IntC(128)), And(Eq(r, b), Eq(w, IntC(1)))))
		// a rune of width > 1 is a valid encoding: its remaining bytes are continuation bytes
		for k := int64(1); k <= 3; k++ {
			e.fact(st, Implies(And(more, Lt(IntC(k), w)), Le(IntC(128), strByte(it.sref, Add(pos, IntC(k))))))
		}
		// consuming one rune extends the consumed prefix by that rune's text
		e.fact(st, Implies(more, Eq(App("strcat", SInt, App("substr", SInt, it.sref, IntC(0), pos), App("runestr", SInt, r)),
			App("substr", SInt, it.sref, IntC(0), Add(pos, w)))))
		e.fact(st, Implies(Not(more), Eq(pos, strLen(it.sref))))
		it.posT = Add(pos, w)
		out := Val{more}
		if bt, isB := tup.At(1).Type().(*types.Basic); !isB || bt.Kind() != types.Invalid {
			out = append(out, pos)
		}
		if bt, isB := tup.At(2).Type().(*types.Basic); !isB || bt.Kind() != types.Invalid {
			out = append(out, r)
		}
		return out
	case "mapc":
		kz := zeroVal(tup.At(1).Type())
		vz := zeroVal(tup.At(2).Type())
		if it.pos >= len(it.keys) {
			return append(append(Val{tFalse}, kz...), vz...)
		}
		k := it.keys[it.pos]
		it.pos++
		val, _ := e.mapLookup(st, it.mtype, it.mref, k)
		kv := Val{k}
		if tup.At(1).Type() != nil && leavesOf(it.mtype.Key())[0].Sort == SBool {
			kv = Val{Ne(k, IntC(0))}
		}
		if _, isInv := tup.At(2).Type().(*types.Basic); isInv && tup.At(2).Type().(*types.Basic).Kind() == types.Invalid {
			val = nil
		}
		if b, isInv := tup.At(1).Type().(*types.Basic); isInv && b.Kind() == types.Invalid {
			kv = nil
		}
		return append(append(Val{tTrue}, kv...), val...)
	case "maps":
		// arbitrary-order iteration over a symbolic map: either an unseen key exists, or all are seen
		p := mapPrefix(it.mtype)
		hasArr := Select(st.heap.get(p+"has", nestedSort(SBool, 2)), it.mref)
		k := Fresh("mapkey", SInt)
		more := Fresh("mapnext", SBool)
		bv := BVar("k", SInt)
		e.fact(st, Implies(more, And(Ne(it.mref, IntC(0)), Select(hasArr, k), Not(Select(it.seen, k)))))
		e.fact(st, Implies(Not(more), Or(Eq(it.mref, IntC(0)), Forall([]*Term{bv}, Implies(Select(hasArr, bv), Select(it.seen, bv))))))
		if ls := leavesOf(it.mtype.Key()); ls[0].Kind != LBool {
			e.fact(st, And(leafAssume(k, ls[0])...))
		}
		it.seen = Store(it.seen, k, tTrue)
		val, _ := e.mapLookup(st, it.mtype, it.mref, k)
		kv := Val{k}
		if b, isInv := tup.At(2).Type().(*types.Basic); isInv && b.Kind() == types.Invalid {
			val = nil
		}
		if b, isInv := tup.At(1).Type().(*types.Basic); isInv && b.Kind() == types.Invalid {
			kv = nil
		}
		return append(append(Val{more}, kv...), val...)
	}
	engineErr("bad iterator")
	return nil
}

func decodeRune(s string) (rune, int) {
	for i, r := range s {
		_ = i
		w := len(string(r))
		if r == 0xFFFD && (len(s) < 3 || s[:3] != "\xef\xbf\xbd") {
			w = 1
		}
		return r, w
	}
	return 0, 0
}

// fact records something that is true in every execution (a type invariant, a dependency's
// postcondition). In verify mode it joins the path condition; while evaluating a specification
// it must not become part of the specification's value, so it is handed to the caller.
func (e *Engine) fact(st *State, t *Term) {
	if e.Mode == ModeSpec {
		t = st.norm(t)
		if t.IsTrue() {
			return
		}
		e.addFact(t)
		st.learn(t)
		return
	}
	st.assume(t)
}
