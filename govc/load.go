package main

import (
	"fmt"
	"go/ast"
	"go/token"
	"go/types"
	"os"
	"path/filepath"
	"strings"

	"golang.org/x/tools/go/packages"
	"golang.org/x/tools/go/ssa"
	"golang.org/x/tools/go/ssa/ssautil"
)

type World struct {
	Repo      string
	Prog      *ssa.Program
	Pkgs      map[string]*ssa.Package // by repo-relative dir
	PkgByPath map[string]*ssa.Package
	PPkgs     map[string]*packages.Package
	Contracts map[string]*PkgContracts // by rel dir
	ByFunc    map[*ssa.Function]*FuncContract
	Fset      *token.FileSet
	ModPath   string
}

func loadEnv() []string {
	return append(os.Environ(), "CGO_ENABLED=0", "GOFLAGS=-mod=mod", "GOPROXY=off")
}

func relPatterns(rels []string) []string {
	var out []string
	for _, r := range rels {
		out = append(out, "./"+r)
	}
	return out
}

// LoadWorld parses contracts, generates overlays and builds SSA for the packages in rels
// (repo-relative directories) plus every package that has a contract file.
func LoadWorld(repo string, rels []string) (*World, error) {
	w := &World{Repo: repo, Pkgs: map[string]*ssa.Package{}, PkgByPath: map[string]*ssa.Package{},
		PPkgs: map[string]*packages.Package{}, Contracts: map[string]*PkgContracts{}, ByFunc: map[*ssa.Function]*FuncContract{}}
	relset := map[string]bool{}
	for _, r := range rels {
		relset[r] = true
	}
	needPass1 := false
	for _, cf := range findContractFiles(repo) {
		pc, err := parseContractFile(repo, cf)
		if err != nil {
			return nil, err
		}
		if err := pc.loadSyntax(); err != nil {
			return nil, err
		}
		if err := pc.resolveDecls(); err != nil {
			return nil, err
		}
		w.Contracts[pc.Rel] = pc
		relset[pc.Rel] = true
		for _, fc := range pc.Funcs {
			if len(fc.Loops) > 0 {
				needPass1 = true
			}
		}
	}
	var all []string
	for r := range relset {
		all = append(all, r)
	}
	locals := map[string]localInfo{}
	if needPass1 {
		var p1 []string
		for rel, pc := range w.Contracts {
			for _, fc := range pc.Funcs {
				if len(fc.Loops) > 0 {
					p1 = append(p1, rel)
					break
				}
			}
		}
		cfg := &packages.Config{Mode: packages.LoadAllSyntax | packages.NeedModule, Dir: repo, Env: loadEnv()}
		pkgs, err := packages.Load(cfg, relPatterns(p1)...)
		if err != nil {
			return nil, err
		}
		for _, p := range pkgs {
			if len(p.Errors) > 0 {
				return nil, fmt.Errorf("pass1: package %s has errors: %v", p.PkgPath, p.Errors[0])
			}
			rel := relOf(repo, p)
			pc := w.Contracts[rel]
			if pc == nil {
				continue
			}
			for _, fc := range pc.Funcs {
				if len(fc.Loops) == 0 {
					continue
				}
				collectLocals(p, pc, fc, locals)
			}
		}
	}
	overlay := map[string][]byte{}
	for _, pc := range w.Contracts {
		src, err := pc.generate(locals)
		if err != nil {
			return nil, err
		}
		overlay[filepath.Join(pc.Dir, "zz_verif_gen.go")] = []byte(src)
	}
	cfg := &packages.Config{Mode: packages.LoadAllSyntax | packages.NeedModule, Dir: repo, Env: loadEnv(), Overlay: overlay}
	pkgs, err := packages.Load(cfg, relPatterns(all)...)
	if err != nil {
		return nil, err
	}
	var errs []string
	packages.Visit(pkgs, nil, func(p *packages.Package) {
		for _, e := range p.Errors {
			errs = append(errs, e.Error())
		}
	})
	if len(errs) > 0 {
		return nil, &TypeErr{fmt.Sprintf("type errors (contracts or tree): %s", strings.Join(errs[:min(len(errs), 8)], "; "))}
	}
	prog, spkgs := ssautil.AllPackages(pkgs, ssa.NaiveForm|ssa.GlobalDebug|ssa.InstantiateGenerics)
	prog.Build()
	w.Prog = prog
	if len(pkgs) > 0 {
		w.Fset = pkgs[0].Fset
	}
	for i, p := range pkgs {
		rel := relOf(repo, p)
		w.Pkgs[rel] = spkgs[i]
		w.PPkgs[rel] = p
		if p.Module != nil {
			w.ModPath = p.Module.Path
			modPath = p.Module.Path
		}
	}
	for _, sp := range prog.AllPackages() {
		w.PkgByPath[sp.Pkg.Path()] = sp
	}
	// bind contracts to SSA functions
	for rel, pc := range w.Contracts {
		sp := w.Pkgs[rel]
		if sp == nil {
			return nil, fmt.Errorf("package %s not loaded", rel)
		}
		for _, fc := range pc.Funcs {
			fn := w.lookupFunc(sp, fc.Recv, fc.Name)
			if fn == nil {
				return nil, &MissingTarget{fmt.Sprintf("SSA function for %s.%s not found", rel, fc.Key())}
			}
			w.ByFunc[fn] = fc
			for _, g := range fc.GhostSets {
				ghostSetArrays["ghost|"+g.Kind] = true
			}
		}
	}
	return w, nil
}

type TypeErr struct{ msg string }

func (t *TypeErr) Error() string { return t.msg }

func relOf(repo string, p *packages.Package) string {
	if len(p.GoFiles) > 0 {
		r, _ := filepath.Rel(repo, filepath.Dir(p.GoFiles[0]))
		return r
	}
	return p.PkgPath
}

func (w *World) lookupFunc(sp *ssa.Package, recv, name string) *ssa.Function {
	if recv == "" {
		return sp.Func(name)
	}
	tn := strings.TrimPrefix(recv, "*")
	t := sp.Type(tn)
	if t == nil {
		return nil
	}
	nt := t.Type()
	if fn := w.Prog.LookupMethod(types.NewPointer(nt), sp.Pkg, name); fn != nil {
		// LookupMethod on *T returns a wrapper when the method is declared on T; prefer the
		// declared method.
		if sel := w.Prog.MethodSets.MethodSet(nt).Lookup(sp.Pkg, name); sel != nil {
			if f2 := w.Prog.MethodValue(sel); f2 != nil {
				return f2
			}
		}
		return fn
	}
	return nil
}

func (w *World) FuncByKey(rel, key string) *ssa.Function {
	sp := w.Pkgs[rel]
	if sp == nil {
		return nil
	}
	if i := strings.Index(key, "."); i >= 0 {
		return w.lookupFunc(sp, key[:i], key[i+1:])
	}
	return sp.Func(key)
}

func collectLocals(p *packages.Package, pc *PkgContracts, fc *FuncContract, out map[string]localInfo) {
	// find the FuncDecl in the type-checked syntax by position
	var fd *ast.FuncDecl
	want := pc.Fset.Position(fc.Decl.Pos())
	for _, f := range p.Syntax {
		for _, d := range f.Decls {
			if x, ok := d.(*ast.FuncDecl); ok {
				pos := p.Fset.Position(x.Pos())
				if pos.Filename == want.Filename && pos.Line == want.Line && x.Name.Name == fc.Name {
					fd = x
				}
			}
		}
	}
	if fd == nil {
		return
	}
	var file *ast.File
	for _, f := range p.Syntax {
		if f.Pos() <= fd.Pos() && fd.End() <= f.End() {
			file = f
		}
	}
	imports := map[string]string{}
	if file != nil {
		for _, im := range file.Imports {
			path := strings.Trim(im.Path.Value, `"`)
			if im.Name != nil {
				imports[path] = im.Name.Name
			}
		}
	}
	qual := func(other *types.Package) string {
		if other == p.Types {
			return ""
		}
		if n, ok := imports[other.Path()]; ok {
			return n
		}
		// make sure the generated file imports it
		found := false
		for _, im := range pc.Imports {
			if strings.Contains(im, `"`+other.Path()+`"`) {
				found = true
			}
		}
		if !found {
			pc.Imports = append(pc.Imports, `"`+other.Path()+`"`)
		}
		return other.Name()
	}
	ast.Inspect(fd, func(n ast.Node) bool {
		if _, ok := n.(*ast.FuncLit); ok {
			return false
		}
		id, ok := n.(*ast.Ident)
		if !ok {
			return true
		}
		obj, ok := p.TypesInfo.Defs[id].(*types.Var)
		if !ok || obj == nil || obj.IsField() {
			return true
		}
		key := pc.Rel + "|" + fc.Key() + "|" + id.Name
		if _, dup := out[key]; dup {
			return true // first declaration wins
		}
		pos := p.Fset.Position(obj.Pos())
		out[key] = localInfo{Type: types.TypeString(obj.Type(), qual), Pos: fmt.Sprintf("%d:%d", pos.Line, pos.Column)}
		return true
	})
}
