package main

// Value representation: every Go value is a flat list of scalar SMT terms ("leaves").
//   ints, strings (interned codes), floats (opaque codes), pointers/maps/chans/funcs (refs) : 1 Int
//   bool : 1 Bool;  interface : (tag, data);  slice : (base, off, len);  struct : concatenation.
// Memory is a set of named SMT arrays ("T|path" indexed by object ref; slices/maps by ref then index).

import (
	"fmt"
	"os"
	"go/constant"
	"go/types"
	"math/big"
	"strings"

	"golang.org/x/tools/go/types/typeutil"
)

type Val []*Term

type LeafKind int

const (
	LInt LeafKind = iota
	LBool
	LStr
	LFloat
	LRef  // pointer, map, chan, func
	LTag  // interface dynamic type tag
	LData // interface data word
	LSBase
	LSOff
	LSLen
)

type Leaf struct {
	Path string
	Sort Sort
	Kind LeafKind
	T    types.Type // scalar type (for ints: the basic type)
}

var layoutCache typeutil.Map

type Unsupported struct{ msg string }

func (u *Unsupported) Error() string { return u.msg }

func unsupported(f string, a ...any) { panic(&Unsupported{fmt.Sprintf(f, a...)}) }

func leavesOf(t types.Type) []Leaf {
	if v := layoutCache.At(t); v != nil {
		return v.([]Leaf)
	}
	var out []Leaf
	switch u := t.Underlying().(type) {
	case *types.Basic:
		switch {
		case u.Info()&types.IsBoolean != 0:
			out = []Leaf{{"", SBool, LBool, u}}
		case u.Info()&types.IsInteger != 0:
			out = []Leaf{{"", SInt, LInt, u}}
		case u.Info()&types.IsString != 0:
			out = []Leaf{{"", SInt, LStr, u}}
		case u.Info()&types.IsFloat != 0, u.Info()&types.IsComplex != 0:
			out = []Leaf{{"", SInt, LFloat, u}}
		case u.Kind() == types.UnsafePointer:
			out = []Leaf{{"", SInt, LRef, u}}
		case u.Kind() == types.UntypedNil:
			out = []Leaf{{"", SInt, LRef, u}}
		case u.Kind() == types.Invalid:
			out = []Leaf{}
		default:
			unsupported("basic type %s", u)
		}
	case *types.Pointer, *types.Map, *types.Chan, *types.Signature:
		out = []Leaf{{"", SInt, LRef, t}}
	case *types.Interface:
		out = []Leaf{{"#tag", SInt, LTag, t}, {"#data", SInt, LData, t}}
	case *types.Slice:
		out = []Leaf{{"#base", SInt, LSBase, t}, {"#off", SInt, LSOff, t}, {"#len", SInt, LSLen, t}}
	case *types.Struct:
		for i := 0; i < u.NumFields(); i++ {
			f := u.Field(i)
			for _, l := range leavesOf(f.Type()) {
				p := f.Name()
				if l.Path != "" {
					if strings.HasPrefix(l.Path, "#") {
						p += l.Path
					} else {
						p += "." + l.Path
					}
				}
				out = append(out, Leaf{p, l.Sort, l.Kind, l.T})
			}
		}
	case *types.Array:
		if u.Len() > 64 {
			unsupported("array type %s too large to flatten", t)
		}
		for i := int64(0); i < u.Len(); i++ {
			for _, l := range leavesOf(u.Elem()) {
				p := fmt.Sprintf("[%d]", i)
				if l.Path != "" {
					if strings.HasPrefix(l.Path, "#") {
						p += l.Path
					} else {
						p += "." + l.Path
					}
				}
				out = append(out, Leaf{p, l.Sort, l.Kind, l.T})
			}
		}
	case *types.Tuple:
		for i := 0; i < u.Len(); i++ {
			for _, l := range leavesOf(u.At(i).Type()) {
				out = append(out, Leaf{fmt.Sprintf("$%d.%s", i, l.Path), l.Sort, l.Kind, l.T})
			}
		}
	default:
		unsupported("type %s", t)
	}
	layoutCache.Set(t, out)
	return out
}

func nLeaves(t types.Type) int { return len(leavesOf(t)) }

func fieldOffset(st *types.Struct, idx int) int {
	off := 0
	for i := 0; i < idx; i++ {
		off += nLeaves(st.Field(i).Type())
	}
	return off
}

func tupleOffset(tp *types.Tuple, idx int) int {
	off := 0
	for i := 0; i < idx; i++ {
		off += nLeaves(tp.At(i).Type())
	}
	return off
}

// typeName is the canonical name used for heap arrays of objects of type t.
func typeName(t types.Type) string {
	if a, ok := t.Underlying().(*types.Array); ok {
		if _, named := t.(*types.Named); !named {
			return "[]" + typeName(a.Elem())
		}
	}
	return types.TypeString(t, func(p *types.Package) string { return p.Path() })
}

// ---------------------------------------------------------------- interning

var (
	strCodes = map[string]int64{"": 0}
	strByID  = map[int64]string{0: ""}
	fltCodes = map[string]int64{}
	typeIDs  typeutil.Map
	typeByID = map[int64]types.Type{}
)

func internStr(s string) *Term {
	if c, ok := strCodes[s]; ok {
		return IntC(c)
	}
	c := int64(len(strCodes))
	strCodes[s] = c
	strByID[c] = s
	return IntC(c)
}

func strOf(t *Term) (string, bool) {
	if c, ok := t.ConstInt(); ok {
		s, ok := strByID[c]
		return s, ok
	}
	return "", false
}

func internFloat(s string) *Term {
	if c, ok := fltCodes[s]; ok {
		return IntC(c)
	}
	c := int64(len(fltCodes) + 1)
	fltCodes[s] = c
	return IntC(c)
}

func typeID(t types.Type) int64 {
	if v := typeIDs.At(t); v != nil {
		return v.(int64)
	}
	id := int64(typeIDs.Len() + 1)
	typeIDs.Set(t, id)
	typeByID[id] = t
	return id
}

func strLen(s *Term) *Term {
	if v, ok := strOf(s); ok {
		return IntC(int64(len(v)))
	}
	return App("strlen", SInt, s)
}

// stringAxioms: facts about interned literals needed when a symbolic string is equated with a
// literal: lengths, and ground instances of substr / byte reads with constant positions that occur
// in the VC (strings are uninterpreted codes; these instances are what connects s == "lit" to
// s[:k] and s[i]).
func stringAxioms(asserts []*Term) string {
	_, ufs, order, _ := collect(asserts)
	has := map[string]bool{}
	for _, u := range ufs {
		has[u] = true
	}
	var sb strings.Builder
	n := int64(len(strByID))
	if has["strlen"] {
		for c := int64(0); c < n; c++ {
			fmt.Fprintf(&sb, "(assert (= (strlen %d) %d))\n", c, len(strByID[c]))
		}
		sb.WriteString("(assert (forall ((s Int)) (! (and (>= (strlen s) 0) (<= (strlen s) 4611686018427387904)) :pattern ((strlen s)))))\n")
	}
	if has["runestr"] {
		// the text of an ASCII rune is the one-byte literal
		for c := 0; c < 128; c++ {
			fmt.Fprintf(&sb, "(assert (= (runestr %d) %s))\n", c, internStr(string(rune(c))).String())
		}
	}
	if has["substr"] && has["strlen"] {
		sb.WriteString("(assert (forall ((s Int)) (! (= (substr s 0 (strlen s)) s) :pattern ((substr s 0 (strlen s))))))\n")
	}
	if !has["substr"] && !has["strbytes"] {
		return sb.String()
	}
	if has["substr"] && !has["strbytes"] {
		sb.WriteString("(declare-fun strbytes (Int) (Array Int Int))\n")
	}
	emitted := 0
	for _, t := range order {
		if emitted > 4000 {
			break
		}
		if t.hasBV {
			continue
		}
		if t.Op == "app" && t.Name == "substr" && len(t.Args) == 3 {
			lo, ok1 := t.Args[1].ConstInt()
			hi, ok2 := t.Args[2].ConstInt()
			if !ok1 || !ok2 || lo < 0 || hi < lo || t.Args[0].IsConst() {
				continue
			}
			for c := int64(0); c < n; c++ {
				v := strByID[c]
				if int64(len(v)) < hi || len(v) > 64 {
					continue
				}
				fmt.Fprintf(&sb, "(assert (=> (= %s %d) (= %s %s)))\n", t.Args[0].String(), c, t.String(), internStr(v[lo:hi]).String())
				emitted++
			}
			// a short slice that equals a literal fixes the bytes at those positions
			if hi-lo >= 1 && hi-lo <= 4 {
				for c := int64(0); c < n; c++ {
					v := strByID[c]
					if int64(len(v)) != hi-lo {
						continue
					}
					var eqs []string
					for k := int64(0); k < hi-lo; k++ {
						eqs = append(eqs, fmt.Sprintf("(= (select (strbytes %s) %d) %d)", t.Args[0].String(), lo+k, v[k]))
					}
					fmt.Fprintf(&sb, "(assert (=> (= %s %d) (and %s true)))\n", t.String(), c, strings.Join(eqs, " "))
					// and conversely: a slice inside the string whose bytes are those of the literal is the literal
					fmt.Fprintf(&sb, "(assert (=> (and (>= (strlen %s) %d) %s) (= %s %d)))\n", t.Args[0].String(), hi, strings.Join(eqs, " "), t.String(), c)
					emitted++
				}
			}
		}
		if t.Op == "select" && t.Args[0].Op == "app" && t.Args[0].Name == "strbytes" {
			i, ok := t.Args[1].ConstInt()
			s0 := t.Args[0].Args[0]
			if !ok || i < 0 || s0.IsConst() {
				continue
			}
			for c := int64(0); c < n; c++ {
				v := strByID[c]
				if int64(len(v)) <= i || len(v) > 64 {
					continue
				}
				fmt.Fprintf(&sb, "(assert (=> (= %s %d) (= %s %d)))\n", s0.String(), c, t.String(), v[i])
				emitted++
			}
		}
	}
	return sb.String()
}

// ---------------------------------------------------------------- constants and zero values

func intRange(b *types.Basic) (lo, hi *big.Int) {
	bits := 64
	signed := true
	switch b.Kind() {
	case types.Int8:
		bits = 8
	case types.Int16:
		bits = 16
	case types.Int32:
		bits = 32
	case types.Int64, types.Int:
		bits = 64
	case types.Uint8:
		bits, signed = 8, false
	case types.Uint16:
		bits, signed = 16, false
	case types.Uint32:
		bits, signed = 32, false
	case types.Uint64, types.Uint, types.Uintptr:
		bits, signed = 64, false
	case types.UntypedInt, types.UntypedRune:
		bits = 64
	}
	one := big.NewInt(1)
	if signed {
		hi = new(big.Int).Sub(new(big.Int).Lsh(one, uint(bits-1)), one)
		lo = new(big.Int).Neg(new(big.Int).Lsh(one, uint(bits-1)))
	} else {
		lo = big.NewInt(0)
		hi = new(big.Int).Sub(new(big.Int).Lsh(one, uint(bits)), one)
	}
	return
}

func inRange(t *Term, b *types.Basic) *Term {
	lo, hi := intRange(b)
	return And(Le(BigC(lo), t), Le(t, BigC(hi)))
}

// wrapTo reduces a mathematical integer to the machine type b.
func wrapTo(t *Term, b *types.Basic) *Term {
	lo, hi := intRange(b)
	if t.Op == "int" {
		if t.Int.Cmp(lo) >= 0 && t.Int.Cmp(hi) <= 0 {
			return t
		}
		m := new(big.Int).Add(new(big.Int).Sub(hi, lo), big.NewInt(1))
		r := new(big.Int).Sub(t.Int, lo)
		r.Mod(r, m)
		r.Add(r, lo)
		return BigC(r)
	}
	m := new(big.Int).Add(new(big.Int).Sub(hi, lo), big.NewInt(1))
	in := And(Le(BigC(lo), t), Le(t, BigC(hi)))
	return Ite(in, t, Add(EMod(Sub(t, BigC(lo)), BigC(m)), BigC(lo)))
}

func zeroVal(t types.Type) Val {
	ls := leavesOf(t)
	v := make(Val, len(ls))
	for i, l := range ls {
		if l.Sort == SBool {
			v[i] = tFalse
		} else {
			v[i] = IntC(0)
		}
	}
	return v
}

func constVal(c constant.Value, t types.Type) Val {
	if c == nil {
		return zeroVal(t)
	}
	switch u := t.Underlying().(type) {
	case *types.Basic:
		switch {
		case u.Info()&types.IsBoolean != 0:
			return Val{BoolC(constant.BoolVal(c))}
		case u.Info()&types.IsInteger != 0:
			bi, ok := constant.Val(constant.ToInt(c)).(*big.Int)
			if !ok {
				i64, _ := constant.Int64Val(constant.ToInt(c))
				bi = big.NewInt(i64)
			}
			return Val{BigC(bi)}
		case u.Info()&types.IsString != 0:
			return Val{internStr(constant.StringVal(c))}
		case u.Info()&types.IsFloat != 0:
			return Val{internFloat(c.ExactString())}
		}
	}
	unsupported("constant %v of type %s", c, t)
	return nil
}

// freshVal creates unconstrained leaves for a value of type t; assumptions (ranges) are returned.
func freshVal(prefix string, t types.Type) (Val, []*Term) {
	ls := leavesOf(t)
	v := make(Val, len(ls))
	var as []*Term
	for i, l := range ls {
		n := prefix
		if l.Path != "" {
			n += "." + l.Path
		}
		x := Fresh(n, l.Sort)
		v[i] = x
		as = append(as, leafAssume(x, l)...)
	}
	as = append(as, nilIfaceCanon(v, ls)...)
	return v, as
}

// nilIfaceCanon: a nil interface value (tag 0) carries the data word 0, so that equal interface
// values are equal leaf by leaf (uninterpreted functions over interface arguments depend on it).
func nilIfaceCanon(v Val, ls []Leaf) []*Term {
	var out []*Term
	if os.Getenv("GOVC_NONILCANON") != "" {
		return nil
	}
	for i := 0; i+1 < len(ls); i++ {
		if ls[i].Kind == LTag && ls[i+1].Kind == LData && !v[i].IsConst() && !v[i].hasBV {
			out = append(out, Implies(Eq(v[i], IntC(0)), Eq(v[i+1], IntC(0))))
		}
	}
	return out
}

// namedVal creates leaves with exact names (for function parameters, so models are readable).
func namedVal(prefix string, t types.Type) (Val, []*Term) {
	ls := leavesOf(t)
	v := make(Val, len(ls))
	var as []*Term
	for i, l := range ls {
		n := prefix
		if l.Path != "" {
			n += "." + l.Path
		}
		x := Var(n, l.Sort)
		v[i] = x
		as = append(as, leafAssume(x, l)...)
	}
	as = append(as, nilIfaceCanon(v, ls)...)
	return v, as
}

func leafAssume(x *Term, l Leaf) []*Term {
	switch l.Kind {
	case LInt:
		if b, ok := l.T.(*types.Basic); ok {
			return []*Term{inRange(x, b)}
		}
	case LStr, LRef, LTag, LSBase, LSOff, LSLen, LFloat, LData:
		if l.Kind == LData {
			// data words of module interfaces hold object references
			if n, ok := l.T.(*types.Named); ok && n.Obj().Pkg() != nil && modPath != "" && strings.HasPrefix(n.Obj().Pkg().Path(), modPath) {
				return []*Term{Le(IntC(0), x)}
			}
			return nil
		}
		if l.Kind == LSLen {
			return []*Term{Le(IntC(0), x), Le(x, BigC(new(big.Int).SetUint64(1<<62)))}
		}
		if l.Kind == LRef || l.Kind == LSBase {
			// unknown references are non-negative, objects allocated by the execution have
			// negative constant ids: remembered so that Select can tell them apart
			knownNonNeg[x] = true
		}
		return []*Term{Le(IntC(0), x)}
	}
	return nil
}

func valEq(a, b Val) *Term {
	if len(a) != len(b) {
		panic("valEq: leaf count mismatch")
	}
	var cs []*Term
	for i := range a {
		cs = append(cs, Eq(a[i], b[i]))
	}
	return And(cs...)
}

func valIte(c *Term, a, b Val) Val {
	out := make(Val, len(a))
	for i := range a {
		out[i] = Ite(c, a[i], b[i])
	}
	return out
}

var modPath string
