package main

import (
	"fmt"
	"go/types"
	"sort"
	"strings"

	"golang.org/x/tools/go/ssa"
)

// ---------------------------------------------------------------- locations

type cellKey struct {
	frame int
	alloc *ssa.Alloc
}

type Loc struct {
	IsCell bool
	Cell   cellKey
	Off    int // leaf offset inside the cell
	Prefix string
	Keys   []*Term
}

var (
	locTab = map[int64]*Loc{}
	locIDs = map[string]int64{}
	nextID = int64(-1)
)

func newObjID() int64 {
	id := nextID
	nextID--
	return id
}

func locID(l *Loc) *Term {
	var sb strings.Builder
	if l.IsCell {
		fmt.Fprintf(&sb, "c%d/%p/%d", l.Cell.frame, l.Cell.alloc, l.Off)
	} else {
		// canonical object pointers are represented by their ref itself
		if len(l.Keys) == 1 && !strings.Contains(strings.SplitN(l.Prefix, "|", 2)[1], ".") && strings.HasSuffix(l.Prefix, "|") {
			return l.Keys[0]
		}
		sb.WriteString("h" + l.Prefix)
		for _, k := range l.Keys {
			fmt.Fprintf(&sb, ",%d", k.id)
		}
	}
	k := sb.String()
	if id, ok := locIDs[k]; ok {
		return IntC(id)
	}
	id := newObjID()
	locIDs[k] = id
	locTab[id] = l
	return IntC(id)
}

// ---------------------------------------------------------------- heap

type havocRec struct {
	prefix string
	epoch  int
	framed bool // loop-head havoc inside a function with an assigns clause: the new arrays obey the frame
}

type Heap struct {
	arr    map[string]*Term
	havocs []havocRec
	// arrays created under a framed havoc whose frame fact has not been assumed yet
	newFramed []string
	framedSym map[string]*Term
	// when set, records the name and sort of every array read or created (shared by clones)
	touch *map[string]Sort
}

var havocEpoch int

// heap arrays that hold the counters of `ghostset` clauses
var ghostSetArrays = map[string]bool{}

func (h *Heap) clone() *Heap {
	n := &Heap{arr: make(map[string]*Term, len(h.arr)), havocs: append([]havocRec{}, h.havocs...), touch: h.touch}
	for k, v := range h.arr {
		n.arr[k] = v
	}
	if len(h.newFramed) > 0 {
		n.newFramed = append([]string{}, h.newFramed...)
	}
	if len(h.framedSym) > 0 {
		n.framedSym = make(map[string]*Term, len(h.framedSym))
		for k, v := range h.framedSym {
			n.framedSym[k] = v
		}
	}
	return n
}

func nestedSort(leaf Sort, depth int) Sort {
	s := leaf
	for i := 0; i < depth; i++ {
		s = ArrSort(s)
	}
	return s
}

func (h *Heap) get(name string, s Sort) *Term {
	if h.touch != nil {
		(*h.touch)[name] = s
	}
	if t, ok := h.arr[name]; ok {
		if t.Sort != s {
			panic(fmt.Sprintf("heap array %s sort mismatch %s vs %s", name, t.Sort, s))
		}
		return t
	}
	ep, framed := 0, false
	for _, r := range h.havocs {
		if r.prefix == "*" && ghostSetArrays[name] {
			continue
		}
		if r.prefix == "*" || strings.HasPrefix(name, r.prefix) {
			ep, framed = r.epoch, r.framed
		}
	}
	t := Var(fmt.Sprintf("H%d$%s", ep, name), s)
	h.arr[name] = t
	if framed {
		if h.framedSym == nil {
			h.framedSym = map[string]*Term{}
		}
		h.framedSym[name] = t
		h.newFramed = append(h.newFramed, name)
	}
	return t
}

func (h *Heap) havocPrefix(prefix string) { h.havocPrefixF(prefix, false) }

func (h *Heap) havocPrefixF(prefix string, framed bool) {
	havocEpoch++
	h.havocs = append(h.havocs, havocRec{prefix, havocEpoch, framed})
	for k := range h.arr {
		if prefix == "*" && ghostSetArrays[k] {
			// bookkeeping counters of `ghostset` clauses are written by those clauses only
			continue
		}
		if prefix == "*" || strings.HasPrefix(k, prefix) {
			delete(h.arr, k)
		}
	}
}

func (h *Heap) read(l *Loc, t types.Type) Val {
	ls := leavesOf(t)
	out := make(Val, len(ls))
	for i, lf := range ls {
		name := l.Prefix + lf.Path
		a := h.get(name, nestedSort(lf.Sort, len(l.Keys)))
		for _, k := range l.Keys {
			a = Select(a, k)
		}
		out[i] = a
	}
	return out
}

func storeNested(a *Term, keys []*Term, v *Term) *Term {
	if len(keys) == 0 {
		return v
	}
	return Store(a, keys[0], storeNested(Select(a, keys[0]), keys[1:], v))
}

func (h *Heap) write(l *Loc, t types.Type, v Val) {
	ls := leavesOf(t)
	for i, lf := range ls {
		name := l.Prefix + lf.Path
		a := h.get(name, nestedSort(lf.Sort, len(l.Keys)))
		h.arr[name] = storeNested(a, l.Keys, v[i])
	}
}

func (h *Heap) names() []string {
	var ks []string
	for k := range h.arr {
		ks = append(ks, k)
	}
	sort.Strings(ks)
	return ks
}

// ---------------------------------------------------------------- frames and states

type Frame struct {
	fn     *ssa.Function
	id     int
	env    map[ssa.Value]Val
	block  *ssa.BasicBlock
	prev   *ssa.BasicBlock
	ip     int
	defers []*ssa.Defer
	deferEnv []map[ssa.Value]Val
	visits map[int]int // loop header block index -> visits
	// call bookkeeping
	callInstr ssa.Instruction // instruction in the caller to bind the result to (nil for top)
	resultTo  ssa.Value
	args      []Val
	loopEntry map[int]*loopSnap
	inDefers  bool
	autoCut   map[int]bool // loop headers cut without a contract (trivial invariant)
	symExit   map[int]bool // uncontracted loop headers one of whose exit tests was symbolic
}

type loopSnap struct {
	dec *Term
}

type iterState struct {
	kind  string // "string" | "mapc" | "maps"
	str   string
	pos   int
	keys  []*Term // mapc: concrete key order
	mref  *Term
	mtype *types.Map
	seen  *Term // maps: Array Int Bool of keys already produced
	sref  *Term // strsym: the string
	posT  *Term // strsym: current byte position
}

type State struct {
	frames   []*Frame
	heap     *Heap
	cells    map[cellKey]Val
	pc       []*Term
	eqs      map[*Term]*Term
	normMemo map[*Term]*Term
	iters    map[int64]*iterState
	steps    int
	dead     bool
	ghostErrs *Term // unused placeholder for future ghost state
	strIdx   []strIdxRec // symbolic string index reads s[i] on this path (for Builder.WriteByte prefix facts)
}

type strIdxRec struct{ s, i, b *Term }

func (st *State) clone() *State {
	n := &State{heap: st.heap.clone(), cells: make(map[cellKey]Val, len(st.cells)),
		pc: append([]*Term{}, st.pc...), eqs: make(map[*Term]*Term, len(st.eqs)), normMemo: map[*Term]*Term{},
		iters: map[int64]*iterState{}, steps: st.steps, strIdx: append([]strIdxRec{}, st.strIdx...)}
	for k, v := range st.cells {
		n.cells[k] = v
	}
	for k, v := range st.eqs {
		n.eqs[k] = v
	}
	for k, v := range st.iters {
		c := *v
		n.iters[k] = &c
	}
	for _, f := range st.frames {
		nf := *f
		nf.env = make(map[ssa.Value]Val, len(f.env))
		for k, v := range f.env {
			nf.env[k] = v
		}
		nf.visits = map[int]int{}
		for k, v := range f.visits {
			nf.visits[k] = v
		}
		nf.loopEntry = map[int]*loopSnap{}
		for k, v := range f.loopEntry {
			nf.loopEntry[k] = v
		}
		if f.symExit != nil {
			nf.symExit = map[int]bool{}
			for k, v := range f.symExit {
				nf.symExit[k] = v
			}
		}
		if f.autoCut != nil {
			nf.autoCut = map[int]bool{}
			for k, v := range f.autoCut {
				nf.autoCut[k] = v
			}
		}
		nf.defers = append([]*ssa.Defer{}, f.defers...)
		nf.deferEnv = append([]map[ssa.Value]Val{}, f.deferEnv...)
		n.frames = append(n.frames, &nf)
	}
	return n
}

func (st *State) top() *Frame { return st.frames[len(st.frames)-1] }

func (st *State) norm(t *Term) *Term {
	if len(st.eqs) == 0 || t.IsConst() {
		return t
	}
	if r, ok := st.normMemo[t]; ok {
		return r
	}
	r := t
	for i := 0; i < 4; i++ {
		n := Subst(r, st.eqs)
		if n == r {
			break
		}
		r = n
	}
	st.normMemo[t] = r
	return r
}

func (st *State) normVal(v Val) Val {
	if len(st.eqs) == 0 {
		return v
	}
	out := make(Val, len(v))
	for i, t := range v {
		out[i] = st.norm(t)
	}
	return out
}

func (st *State) assume(t *Term) {
	t = st.norm(t)
	if t.IsTrue() {
		return
	}
	if t.Op == "and" {
		for _, a := range t.Args {
			st.assume(a)
		}
		return
	}
	st.pc = append(st.pc, t)
	st.learn(t)
}

func (st *State) learn(t *Term) {
	changed := false
	set := func(k, v *Term) {
		if k.IsConst() {
			return
		}
		if st.eqs[k] != v {
			st.eqs[k] = v
			changed = true
		}
	}
	switch t.Op {
	case "bool":
	case "not":
		set(t.Args[0], tFalse)
	case "=":
		a, b := t.Args[0], t.Args[1]
		if b.IsConst() {
			set(a, b)
		} else if a.IsConst() {
			set(b, a)
		}
		set(t, tTrue)
	case "<", "<=":
		set(t, tTrue)
		set(Not(t), tFalse)
	default:
		set(t, tTrue)
	}
	if changed {
		st.normMemo = map[*Term]*Term{}
	}
}

type forkRequest struct{ alts []*Term }

// decide returns the truth value of c if it is determined syntactically under the path
// condition, otherwise requests a fork.
func (st *State) decide(c *Term) bool {
	c = st.norm(c)
	if c.IsTrue() {
		return true
	}
	if c.IsFalse() {
		return false
	}
	panic(&forkRequest{[]*Term{c, Not(c)}})
}

// concretize forks until t is a constant.
func (st *State) concretize(t *Term) *Term {
	t = st.norm(t)
	for t.Op == "ite" {
		if st.decide(t.Args[0]) {
			t = st.norm(t.Args[1])
		} else {
			t = st.norm(t.Args[2])
		}
	}
	return t
}
