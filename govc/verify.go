package main

import (
	"fmt"
	"os"
	"go/ast"
	"go/token"
	"go/types"
	"sort"
	"strings"

	"golang.org/x/tools/go/ssa"
)

// ---------------------------------------------------------------- spec evaluation

// evalSpecFn symbolically executes a (ghost) function in the current heap and returns its
// boolean/int result as one term (disjunction over paths). Side facts go to e.facts.
func (e *Engine) evalSpecFn(st *State, fn *ssa.Function, args []Val, extraPC []*Term) *Term {
	if len(fn.Blocks) == 0 {
		engineErr("spec function %s has no body", fn)
	}
	sub := &State{heap: st.heap.clone(), cells: map[cellKey]Val{}, pc: append([]*Term{}, st.pc...),
		eqs: map[*Term]*Term{}, normMemo: map[*Term]*Term{}, iters: map[int64]*iterState{}}
	for k, v := range st.eqs {
		sub.eqs[k] = v
	}
	for k, v := range st.iters {
		c := *v
		sub.iters[k] = &c
	}
	for _, p := range extraPC {
		sub.assume(p)
	}
	base := len(sub.pc)
	nf := e.newFrame(fn, args)
	for i, fv := range fn.FreeVars {
		nf.env[fv] = args[len(fn.Params)+i]
	}
	sub.frames = []*Frame{nf}
	// closures capture cells of the enclosing spec frame: share cells map by reference
	for k, v := range st.cells {
		sub.cells[k] = v
	}
	savedMode, savedOut, savedRet, savedPaths := e.Mode, e.specOut, e.onReturn, e.Paths
	e.Mode = ModeSpec
	e.specOut = nil
	e.onReturn = func(s *State, fr *Frame, results []Val) {
		var flat Val
		for _, r := range results {
			flat = append(flat, r...)
		}
		e.specOut = append(e.specOut, specRet{pc: append([]*Term{}, s.pc[base:]...), val: flat})
	}
	func() {
		defer func() {
			e.Mode, e.onReturn, e.Paths = savedMode, savedRet, savedPaths
		}()
		e.explore(sub)
	}()
	outs := e.specOut
	e.specOut = savedOut
	if len(outs) == 0 {
		return tTrue // no feasible path: vacuous
	}
	rs := leavesOf(fn.Signature.Results().At(0).Type())
	if rs[0].Sort == SBool {
		var alts []*Term
		for _, o := range outs {
			alts = append(alts, And(append(append([]*Term{}, o.pc...), o.val[0])...))
		}
		return Or(alts...)
	}
	// integer-valued spec (decreases): ite chain
	r := outs[len(outs)-1].val[0]
	for i := len(outs) - 2; i >= 0; i-- {
		r = Ite(And(outs[i].pc...), outs[i].val[0], r)
	}
	return r
}

// evalSpecFnVal is evalSpecFn for results of any shape: one ite chain per leaf.
func (e *Engine) evalSpecFnVal(st *State, fn *ssa.Function, args []Val) Val {
	sub := &State{heap: st.heap.clone(), cells: map[cellKey]Val{}, pc: append([]*Term{}, st.pc...),
		eqs: map[*Term]*Term{}, normMemo: map[*Term]*Term{}, iters: map[int64]*iterState{}}
	for k, v := range st.eqs {
		sub.eqs[k] = v
	}
	for k, v := range st.cells {
		sub.cells[k] = v
	}
	base := len(sub.pc)
	sub.frames = []*Frame{e.newFrame(fn, args)}
	savedMode, savedOut, savedRet, savedPaths := e.Mode, e.specOut, e.onReturn, e.Paths
	e.Mode = ModeSpec
	e.specOut = nil
	e.onReturn = func(s *State, fr *Frame, results []Val) {
		var flat Val
		for _, r := range results {
			flat = append(flat, r...)
		}
		e.specOut = append(e.specOut, specRet{pc: append([]*Term{}, s.pc[base:]...), val: flat})
	}
	func() {
		defer func() { e.Mode, e.onReturn, e.Paths = savedMode, savedRet, savedPaths }()
		e.explore(sub)
	}()
	outs := e.specOut
	e.specOut = savedOut
	if len(outs) == 0 {
		engineErr("specification function %s has no feasible path", fn)
	}
	r := append(Val{}, outs[len(outs)-1].val...)
	for i := len(outs) - 2; i >= 0; i-- {
		c := And(outs[i].pc...)
		for k := range r {
			r[k] = Ite(c, outs[i].val[k], r[k])
		}
	}
	return r
}

func (e *Engine) genFn(fc *FuncContract, name string) *ssa.Function {
	rel, _ := relDir(e.W.Repo, fc.PkgDir)
	sp := e.W.Pkgs[rel]
	if sp == nil {
		engineErr("package for %s not loaded", fc.PkgDir)
	}
	fn := sp.Func(name)
	if fn == nil {
		engineErr("generated function %s missing", name)
	}
	return fn
}

func relDir(repo, dir string) (string, error) {
	if strings.HasPrefix(dir, repo+"/") {
		return dir[len(repo)+1:], nil
	}
	return dir, nil
}

// evalClause evaluates a contract clause with the given arguments in heap `post`, with old()
// referring to `pre`.
func (e *Engine) evalClause(st *State, fc *FuncContract, c *Clause, args []Val, pre *Heap) *Term {
	savedPre := e.preHeap
	e.preHeap = pre
	defer func() { e.preHeap = savedPre }()
	fn := e.genFn(fc, c.Gen)
	nfacts := len(e.facts)
	t := e.evalSpecFn(st, fn, args, nil)
	// facts learnt during evaluation hold in the calling state (and propagate further up when
	// the caller is itself a specification being evaluated)
	fresh := append([]*Term{}, e.facts[nfacts:]...)
	e.facts = e.facts[:nfacts]
	for _, f := range fresh {
		e.fact(st, f)
	}
	return t
}

func (e *Engine) addFact(f *Term) {
	if bvs := bvarsOf(f); len(bvs) > 0 {
		f = Forall(bvs, f)
	}
	e.facts = append(e.facts, f)
}

// applySummary replaces a call by the callee's contract.
func (e *Engine) applySummary(st *State, fr *Frame, callee *ssa.Function, fc *FuncContract, args []Val, at ssa.Instruction) []Val {
	e.UsedSpecs[shortFn(callee)]++
	n := len(callee.Params)
	cargs := args[:n]
	pre := st.heap.clone()
	where := token.NoPos
	if at != nil {
		where = at.Pos()
	}
	if e.Mode == ModeVerify {
		for k, c := range fc.Requires {
			t := e.evalClause(st, fc, c, cargs, pre)
			e.oblige(st, fmt.Sprintf("%s.call:%s.requires#%d", shortFn(e.TopFn), shortFn(callee), k), "requires-at-call", where, t)
		}
	}
	// ghost bookkeeping clauses are evaluated in the state before the call
	type gsUpd struct {
		kind      string
		addr, val *Term
	}
	var gs []gsUpd
	if len(fc.GhostSets) > 0 && e.Mode == ModeVerify {
		base := "vc_" + strings.ReplaceAll(fc.Key(), ".", "_")
		for i, g := range fc.GhostSets {
			iv := e.evalSpecVal(st, e.genFn(fc, fmt.Sprintf("%s_gsa%d", base, i)), cargs)
			tagc, ok := st.concretize(iv[0]).ConstInt()
			if !ok || tagc == 0 {
				engineErr("ghostset %q: address does not resolve", g.Addr)
			}
			av := e.unbox(st, typeByID[tagc], iv[1])
			vv := e.evalSpecFnVal(st, e.genFn(fc, fmt.Sprintf("%s_gsv%d", base, i)), cargs)
			ghostSetArrays["ghost|"+g.Kind] = true
			gs = append(gs, gsUpd{"ghost|" + g.Kind, av[0], vv[0]})
		}
	}
	defer func() {
		for _, u := range gs {
			st.heap.arr[u.kind] = Store(st.heap.get(u.kind, ArrSort(SInt)), u.addr, u.val)
		}
	}()
	var results []Val
	if fc.Pure {
		// A pure contracted function is a function symbol of its arguments (assumption, DESIGN 10.6: what it
		// reads is not written between two of its calls by the function under proof). Applying the symbol
		// to the heap arrays its contract reads as well — the sound encoding used for recursive
		// specification functions — was tried and made the type-checker proofs intractable.
		results = e.ufResults(st, "pure$"+shortFn(callee), callee.Signature, cargs)
	} else {
		if e.Mode == ModeSpec {
			engineErr("non-pure contracted function %s called in a specification", callee)
		}
		e.havocAssigns(st, fc, callee, cargs)
		for i := 0; i < callee.Signature.Results().Len(); i++ {
			v, as := freshVal("ret$"+shortFn(callee), callee.Signature.Results().At(i).Type())
			for _, a := range as {
				st.assume(a)
			}
			results = append(results, v)
		}
	}
	eargs := append(append([]Val{}, cargs...), results...)
	if fc.Opts["opaque"] != "" {
		// opaque: callers see only the (deterministic) function symbol, not the postconditions
		return results
	}
	if e.Mode == ModeSpec {
		if e.specDepth < 1 {
			e.specDepth++
			var reqs, enss []*Term
			for _, c := range fc.Requires {
				reqs = append(reqs, e.evalClause(st, fc, c, cargs, pre))
			}
			for _, c := range fc.Ensures {
				enss = append(enss, e.evalClause(st, fc, c, eargs, pre))
			}
			e.specDepth--
			e.addFact(Implies(And(reqs...), And(enss...)))
		}
		return results
	}
	for _, c := range fc.Ensures {
		st.assume(e.evalClause(st, fc, c, eargs, pre))
	}
	return results
}

// havocAssigns havocs what the callee's `assigns` clause lists. Forms:
//   heap | prefix <array-name-prefix> | elems(e) | entries(e) | <addressable expression>
func (e *Engine) havocAssigns(st *State, fc *FuncContract, callee *ssa.Function, args []Val) {
	if !fc.HasAssigns {
		// no assigns clause: the frame is what the callee's body can write (type-based write set
		// computed from the code), so an omitted clause can never hide a write from the caller
		if fc.Trusted || len(callee.Blocks) == 0 {
			return
		}
		m := e.modset(callee, map[*ssa.Function]bool{})
		if m["*"] {
			st.heap.havocPrefix("*")
			return
		}
		for p := range m {
			st.heap.havocPrefix(p)
		}
		return
	}
	for i, a := range fc.Assigns {
		a = strings.TrimSpace(a)
		switch {
		case a == "heap":
			st.heap.havocPrefix("*")
		case strings.HasPrefix(a, "prefix "):
			st.heap.havocPrefix(strings.Trim(strings.TrimSpace(a[7:]), `"`))
		default:
			fn := e.genFn(fc, fmt.Sprintf("vc_%s_asg%d", strings.ReplaceAll(fc.Key(), ".", "_"), i))
			iv := e.evalSpecVal(st, fn, args)
			tagc, ok := st.concretize(iv[0]).ConstInt()
			if !ok || tagc == 0 {
				engineErr("assigns %q: cannot resolve", a)
			}
			rt := typeByID[tagc]
			v := e.unbox(st, rt, iv[1])
			switch t := rt.Underlying().(type) {
			case *types.Pointer:
				l := e.resolvePtr(st, v[0], t.Elem())
				nv, as := freshVal("asg", t.Elem())
				e.store(st, l, t.Elem(), nv)
				for _, x := range as {
					st.assume(x)
				}
			case *types.Slice:
				prefix := "[]" + typeName(t.Elem()) + "|"
				for _, lf := range leavesOf(t.Elem()) {
					name := prefix + lf.Path
					arr := st.heap.get(name, nestedSort(lf.Sort, 2))
					st.heap.arr[name] = Store(arr, v[0], Fresh("asgrow", ArrSort(lf.Sort)))
				}
			case *types.Map:
				p := mapPrefix(t)
				has := st.heap.get(p+"has", nestedSort(SBool, 2))
				st.heap.arr[p+"has"] = Store(has, v[0], Fresh("asghas", ArrSort(SBool)))
				ln := st.heap.get(p+"len", nestedSort(SInt, 1))
				nl := Fresh("asglen", SInt)
				st.assume(Le(IntC(0), nl))
				st.heap.arr[p+"len"] = Store(ln, v[0], nl)
				for _, lf := range leavesOf(t.Elem()) {
					name := p + "val." + lf.Path
					arr := st.heap.get(name, nestedSort(lf.Sort, 2))
					st.heap.arr[name] = Store(arr, v[0], Fresh("asgval", ArrSort(lf.Sort)))
				}
			default:
				engineErr("assigns %q: unsupported form", a)
			}
		}
	}
}

// evalSpecVal runs a single-path ghost function and returns its value.
func (e *Engine) evalSpecVal(st *State, fn *ssa.Function, args []Val) Val {
	sub := &State{heap: st.heap.clone(), cells: map[cellKey]Val{}, pc: append([]*Term{}, st.pc...),
		eqs: map[*Term]*Term{}, normMemo: map[*Term]*Term{}, iters: map[int64]*iterState{}}
	for k, v := range st.eqs {
		sub.eqs[k] = v
	}
	sub.frames = []*Frame{e.newFrame(fn, args)}
	savedMode, savedOut, savedRet, savedPaths := e.Mode, e.specOut, e.onReturn, e.Paths
	e.Mode = ModeSpec
	e.specOut = nil
	e.onReturn = func(s *State, fr *Frame, results []Val) {
		var flat Val
		for _, r := range results {
			flat = append(flat, r...)
		}
		e.specOut = append(e.specOut, specRet{val: flat})
	}
	func() {
		defer func() { e.Mode, e.onReturn, e.Paths = savedMode, savedRet, savedPaths }()
		e.explore(sub)
	}()
	outs := e.specOut
	e.specOut = savedOut
	if len(outs) != 1 {
		engineErr("assigns expression in %s must be branch-free (got %d paths)", fn, len(outs))
	}
	return outs[0].val
}

// ---------------------------------------------------------------- loops

type loopDesc struct {
	header   *ssa.BasicBlock
	blocks   map[*ssa.BasicBlock]bool
	contract *LoopContract
	fc       *FuncContract
	modCells []*ssa.Alloc
	modRange map[*ssa.Alloc][][2]int // leaf ranges written (nil entry = whole cell)
	modHeap  map[string]bool
	rangeIdx *ssa.Alloc
	autoMods bool
}

type loopInfo struct {
	byHeader map[int]*loopDesc
}

func (e *Engine) loopsOf(fn *ssa.Function) *loopInfo {
	if li, ok := e.loops[fn]; ok {
		return li
	}
	li := &loopInfo{byHeader: map[int]*loopDesc{}}
	e.loops[fn] = li
	for _, b := range fn.Blocks {
		for _, s := range b.Succs {
			if s.Dominates(b) { // back edge b -> s
				ld := li.byHeader[s.Index]
				if ld == nil {
					ld = &loopDesc{header: s, blocks: map[*ssa.BasicBlock]bool{s: true}, modHeap: map[string]bool{}}
					li.byHeader[s.Index] = ld
				}
				// collect natural loop body
				stack := []*ssa.BasicBlock{b}
				for len(stack) > 0 {
					x := stack[len(stack)-1]
					stack = stack[:len(stack)-1]
					if ld.blocks[x] {
						continue
					}
					ld.blocks[x] = true
					stack = append(stack, x.Preds...)
				}
			}
		}
	}
	fc := e.W.ByFunc[fn]
	for _, ld := range li.byHeader {
		e.loopMods(fn, ld)
		if fc != nil {
			e.bindLoopContract(fn, fc, ld)
		}
	}
	if fc != nil {
		for _, lc := range fc.Loops {
			if lc.Missing {
				continue
			}
			found := false
			for _, ld := range li.byHeader {
				if ld.contract == lc {
					found = true
				}
			}
			if !found {
				panic(&MissingTarget{fmt.Sprintf("loop contract %q of %s did not match any SSA loop", lc.Key, fn)})
			}
		}
	}
	return li
}

func (e *Engine) bindLoopContract(fn *ssa.Function, fc *FuncContract, ld *loopDesc) {
	// smallest AST loop statement containing all positioned instructions of the SSA loop
	pcs := e.W.Contracts
	var pc *PkgContracts
	for _, p := range pcs {
		for _, f := range p.Funcs {
			if f == fc {
				pc = p
			}
		}
	}
	if pc == nil {
		return
	}
	type span struct{ lo, hi int }
	var loops []ast.Stmt
	ast.Inspect(fc.Decl.Body, func(n ast.Node) bool {
		switch n.(type) {
		case *ast.FuncLit:
			return false
		case *ast.RangeStmt, *ast.ForStmt:
			loops = append(loops, n.(ast.Stmt))
		}
		return true
	})
	off := func(p token.Pos) int { return e.W.Fset.Position(p).Offset }
	var best ast.Stmt
	bestSize := 1 << 60
	for _, s := range loops {
		lo, hi := pc.Fset.Position(s.Pos()).Offset, pc.Fset.Position(s.End()).Offset
		ok := true
		any := false
		for b := range ld.blocks {
			for _, ins := range b.Instrs {
				if _, isDbg := ins.(*ssa.DebugRef); isDbg {
					continue
				}
				if p := ins.Pos(); p.IsValid() {
					o := off(p)
					any = true
					if o < lo || o >= hi {
						ok = false
					}
				}
			}
		}
		if ok && any && hi-lo < bestSize {
			best, bestSize = s, hi-lo
		}
	}
	if best == nil {
		return
	}
	for _, lc := range fc.Loops {
		if lc.Stmt == best {
			ld.contract = lc
			ld.fc = fc
		}
	}
}

func rootAlloc(v ssa.Value) *ssa.Alloc {
	for {
		switch x := v.(type) {
		case *ssa.Alloc:
			return x
		case *ssa.FieldAddr:
			v = x.X
		case *ssa.IndexAddr:
			v = x.X
		default:
			return nil
		}
	}
}

// cellRange computes the leaf range inside a local cell that a store through addr writes.
func cellRange(addr ssa.Value) (off, n int, ok bool) {
	switch x := addr.(type) {
	case *ssa.Alloc:
		return 0, nLeaves(derefType(x.Type())), true
	case *ssa.FieldAddr:
		o, _, ok := cellRange(x.X)
		if !ok {
			return 0, 0, false
		}
		s := derefType(x.X.Type()).Underlying().(*types.Struct)
		return o + fieldOffset(s, x.Field), nLeaves(s.Field(x.Field).Type()), true
	}
	return 0, 0, false
}

func addrPrefix(v ssa.Value) string {
	switch x := v.(type) {
	case *ssa.FieldAddr:
		s := derefType(x.X.Type())
		f := s.Underlying().(*types.Struct).Field(x.Field)
		var base string
		switch x.X.(type) {
		case *ssa.FieldAddr, *ssa.IndexAddr:
			base = addrPrefix(x.X)
			if !strings.HasSuffix(base, "|") && !strings.HasSuffix(base, ".") {
				base += "."
			}
		default:
			base = typeName(s) + "|"
		}
		return base + f.Name()
	case *ssa.IndexAddr:
		switch t := x.X.Type().Underlying().(type) {
		case *types.Slice:
			return "[]" + typeName(t.Elem()) + "|"
		case *types.Pointer:
			return "[]" + typeName(t.Elem().Underlying().(*types.Array).Elem()) + "|"
		}
	}
	return typeName(derefType(v.Type())) + "|"
}

// modset computes the heap-array prefixes a function may write (type based), "*" = anything.
func (e *Engine) modset(fn *ssa.Function, visiting map[*ssa.Function]bool) map[string]bool {
	if m, ok := e.modsets[fn]; ok {
		return m
	}
	if visiting[fn] {
		return map[string]bool{}
	}
	visiting[fn] = true
	m := map[string]bool{}
	for _, b := range fn.Blocks {
		for _, ins := range b.Instrs {
			e.instrMods(fn, ins, m, visiting)
		}
	}
	delete(visiting, fn)
	if len(visiting) == 0 {
		e.modsets[fn] = m
	}
	return m
}

func (e *Engine) instrMods(fn *ssa.Function, ins ssa.Instruction, m map[string]bool, visiting map[*ssa.Function]bool) {
	switch x := ins.(type) {
	case *ssa.Store:
		if a := rootAlloc(x.Addr); a != nil && !a.Heap {
			return
		}
		m[addrPrefix(x.Addr)] = true
	case *ssa.MapUpdate:
		m[mapPrefix(x.Map.Type().Underlying().(*types.Map))] = true
	case *ssa.Call, *ssa.Defer, *ssa.Go:
		c := ins.(ssa.CallInstruction).Common()
		e.callMods(c, m, visiting)
	}
}

func (e *Engine) callMods(c *ssa.CallCommon, m map[string]bool, visiting map[*ssa.Function]bool) {
	// interior pointers passed to callees are written under their caller-side name
	for _, a := range c.Args {
		switch a.(type) {
		case *ssa.FieldAddr, *ssa.IndexAddr:
			if r := rootAlloc(a); r == nil || r.Heap {
				m[addrPrefix(a)] = true
			}
		}
	}
	if c.IsInvoke() {
		it := c.Value.Type().Underlying().(*types.Interface)
		if !e.inModuleIface(c.Value.Type()) {
			if c.Method.Name() == "Error" || c.Method.Name() == "String" {
				return
			}
			m["*"] = true
			return
		}
		for _, im := range e.implementers(it) {
			sel := e.W.Prog.MethodSets.MethodSet(im).Lookup(c.Method.Pkg(), c.Method.Name())
			if sel == nil {
				continue
			}
			if f := e.W.Prog.MethodValue(sel); f != nil {
				for k := range e.modset(f, visiting) {
					m[k] = true
				}
			}
		}
		return
	}
	switch v := c.Value.(type) {
	case *ssa.Builtin:
		switch v.Name() {
		case "append", "copy":
			if sl, ok := c.Args[0].Type().Underlying().(*types.Slice); ok {
				m["[]"+typeName(sl.Elem())+"|"] = true
			}
		case "delete":
			m[mapPrefix(c.Args[0].Type().Underlying().(*types.Map))] = true
		}
	case *ssa.Function:
		e.fnMods(v, m, visiting)
	case *ssa.MakeClosure:
		e.fnMods(v.Fn.(*ssa.Function), m, visiting)
	default:
		m["*"] = true
	}
}

func (e *Engine) fnMods(f *ssa.Function, m map[string]bool, visiting map[*ssa.Function]bool) {
	if fc := e.W.ByFunc[f]; fc != nil && (fc.Pure || (fc.Trusted && !fc.HasAssigns)) {
		return
	}
	if fc := e.W.ByFunc[f]; fc != nil && fc.HasAssigns {
		// the callee's frame is its assigns clause
		if e.assignsMods(fc, m) {
			return
		}
	}
	if _, ok := modelTable[f.String()]; ok {
		if modelWrites[f.String()] != "" {
			m[modelWrites[f.String()]] = true
		}
		return
	}
	if pureStd(f) || (f.Pkg != nil && stdInline[f.Pkg.Pkg.Path()]) {
		return
	}
	if len(f.Blocks) == 0 {
		if pf, all := extFrame(f.Signature); !all {
			for _, p := range pf {
				m[p] = true
			}
			return
		}
		m["*"] = true
		return
	}
	inMod := false
	root := f
	for root.Parent() != nil {
		root = root.Parent()
	}
	if root.Pkg != nil && strings.HasPrefix(root.Pkg.Pkg.Path(), e.W.ModPath) {
		inMod = true
	}
	if root.Pkg == nil && root.Origin() != nil {
		inMod = true
	}
	if !inMod && f.Synthetic == "" {
		if pf, all := extFrame(f.Signature); !all {
			for _, p := range pf {
				m[p] = true
			}
			return
		}
		m["*"] = true
		return
	}
	for k := range e.modset(f, visiting) {
		m[k] = true
	}
}

// assignsMods translates an assigns clause into heap-array prefixes; false if a form cannot be resolved.
func (e *Engine) assignsMods(fc *FuncContract, m map[string]bool) bool {
	for i, a := range fc.Assigns {
		a = strings.TrimSpace(a)
		switch {
		case a == "heap":
			m["*"] = true
		case strings.HasPrefix(a, "prefix "):
			m[strings.Trim(strings.TrimSpace(a[7:]), `"`)] = true
		default:
			fn := e.genFn(fc, fmt.Sprintf("vc_%s_asg%d", strings.ReplaceAll(fc.Key(), ".", "_"), i))
			ok := false
			for _, b := range fn.Blocks {
				for _, ins := range b.Instrs {
					mi, isMI := ins.(*ssa.MakeInterface)
					if !isMI {
						continue
					}
					switch t := mi.X.Type().Underlying().(type) {
					case *types.Pointer:
						m[addrPrefix(mi.X)] = true
						ok = true
					case *types.Slice:
						m["[]"+typeName(t.Elem())+"|"] = true
						ok = true
					case *types.Map:
						m[mapPrefix(t)] = true
						ok = true
					}
				}
			}
			if !ok {
				return false
			}
		}
	}
	return true
}

func (e *Engine) loopMods(fn *ssa.Function, ld *loopDesc) {
	cells := map[*ssa.Alloc]bool{}
	for b := range ld.blocks {
		for _, ins := range b.Instrs {
			if s, ok := ins.(*ssa.Store); ok {
				if a := rootAlloc(s.Addr); a != nil && !a.Heap {
					cells[a] = true
					if ld.modRange == nil {
						ld.modRange = map[*ssa.Alloc][][2]int{}
					}
					if off, n, ok := cellRange(s.Addr); ok {
						if r, seen := ld.modRange[a]; !seen || r != nil {
							ld.modRange[a] = append(r, [2]int{off, n})
						}
					} else {
						ld.modRange[a] = nil
					}
					if a.Comment == "rangeindex" && b == ld.header {
						ld.rangeIdx = a
					}
					continue
				}
			}
			e.instrMods(fn, ins, ld.modHeap, map[*ssa.Function]bool{})
		}
	}
	for a := range cells {
		ld.modCells = append(ld.modCells, a)
	}
	sort.Slice(ld.modCells, func(i, j int) bool { return ld.modCells[i].Pos() < ld.modCells[j].Pos() })
}

// localValue finds the current value of the local named name (declared at pos "line:col").
func (e *Engine) localValue(st *State, fr *Frame, spec string, ld *loopDesc) Val {
	if spec == "ii" {
		if ld.rangeIdx == nil {
			engineErr("`ii` used in a loop that is not a range-over-slice loop in %s", fr.fn)
		}
		v := st.cells[cellKey{fr.id, ld.rangeIdx}]
		return Val{Add(st.norm(v[0]), IntC(1))}
	}
	if spec == "oi" {
		var outer *loopDesc
		for _, o := range e.loopsOf(fr.fn).byHeader {
			if o != ld && o.blocks[ld.header] && o.rangeIdx != nil && (outer == nil || len(o.blocks) < len(outer.blocks)) {
				outer = o
			}
		}
		if outer == nil {
			engineErr("`oi` used in a loop that is not nested in a range-over-slice loop in %s", fr.fn)
		}
		v := st.cells[cellKey{fr.id, outer.rangeIdx}]
		return Val{st.norm(v[0])}
	}
	name, pos := spec, ""
	if i := strings.Index(spec, "@"); i >= 0 {
		name, pos = spec[:i], spec[i+1:]
	}
	var cands []*ssa.Alloc
	for _, b := range fr.fn.Blocks {
		for _, ins := range b.Instrs {
			if a, ok := ins.(*ssa.Alloc); ok && a.Comment == name {
				cands = append(cands, a)
			}
		}
	}
	var pick *ssa.Alloc
	for _, a := range cands {
		p := e.W.Fset.Position(a.Pos())
		if fmt.Sprintf("%d:%d", p.Line, p.Column) == pos {
			pick = a
		}
	}
	if pick == nil && len(cands) > 0 {
		pick = cands[0]
	}
	if pick == nil {
		engineErr("local %s not found in %s", name, fr.fn)
	}
	t := derefType(pick.Type())
	if !pick.Heap {
		v, ok := st.cells[cellKey{fr.id, pick}]
		if !ok {
			engineErr("local %s of %s is not live at the loop header", name, fr.fn)
		}
		return st.normVal(v)
	}
	p, ok := fr.env[pick]
	if !ok {
		engineErr("local %s of %s is not live at the loop header", name, fr.fn)
	}
	return e.load(st, e.resolvePtr(st, p[0], t), t)
}

func (e *Engine) loopClauseArgs(st *State, fr *Frame, c *Clause, ld *loopDesc) []Val {
	var args []Val
	for _, p := range c.Params {
		args = append(args, e.localValue(st, fr, p, ld))
	}
	return args
}

// enterBlock handles loop headers. Returns true if the path ended here.
func (e *Engine) enterBlock(st *State, fr *Frame) bool {
	li := e.loopsOf(fr.fn)
	ld := li.byHeader[fr.block.Index]
	if ld == nil {
		return false
	}
	if ld.contract == nil || e.Mode == ModeSpec {
		if fr.autoCut != nil && fr.autoCut[fr.block.Index] {
			// back edge of a loop that was cut without an invariant: nothing to preserve
			st.dead = true
			return true
		}
		fr.visits[fr.block.Index]++
		// unroll while the loop's own exit tests are decided concretely (constant trip count, whatever
		// the body branches on); once an exit test was symbolic, allow a few iterations and then cut
		symbolic := fr.symExit != nil && fr.symExit[fr.block.Index]
		if fr.visits[fr.block.Index] > unrollLimit || (symbolic && fr.visits[fr.block.Index] > 3 && e.Mode != ModeSpec) {
			if e.Mode == ModeSpec {
				engineErr("loop at %s in %s needs an invariant (unrolled %d times)", e.pos(firstPos(fr.block)), fr.fn, unrollLimit)
			}
			// A loop without a contract whose trip count is not settled by unrolling: cut it here with
			// the trivial invariant (everything the loop can write is forgotten).  Sound; what the
			// function's clauses need from the loop is then simply not available to them.
			nt := fmt.Sprintf("loop without a contract at %s cut with the trivial invariant after %d unrollings", e.pos(firstPos(fr.block)), fr.visits[fr.block.Index]-1)
			if !ld.autoMods {
				ld.autoMods = true
				e.Notes = append(e.Notes, nt)
			}
			e.frameCheck(st, firstPos(fr.block))
			e.havocLoop(st, fr, ld)
			if fr.autoCut == nil {
				fr.autoCut = map[int]bool{}
			}
			fr.autoCut[fr.block.Index] = true
		}
		return false
	}
	lc := ld.contract
	fnName := shortFn(fr.fn)
	loopName := fmt.Sprintf("%s.loop[%s]", fnName, lc.Key)
	fromInside := fr.prev != nil && ld.blocks[fr.prev]
	where := firstPos(fr.block)
	if !fromInside {
		// entry: establish
		for k, c := range lc.Invariants {
			t := e.evalClause(st, ld.fc, c, e.loopClauseArgs(st, fr, c, ld), e.preHeap)
			e.oblige(st, fmt.Sprintf("%s.invariant#%d.entry", loopName, k), "invariant-entry", where, t)
		}
		// the frame must hold here before the loop head forgets what was written so far
		e.frameCheck(st, where)
		// havoc
		if trace {
			fmt.Fprintf(os.Stderr, "loop %s havoc set: %v\n", loopName, ld.modHeap)
		}
		e.havocLoop(st, fr, ld)
		for _, c := range lc.Invariants {
			st.assume(e.evalClause(st, ld.fc, c, e.loopClauseArgs(st, fr, c, ld), e.preHeap))
		}
		snap := &loopSnap{}
		if lc.Decreases != nil {
			snap.dec = e.evalClause(st, ld.fc, lc.Decreases, e.loopClauseArgs(st, fr, lc.Decreases, ld), e.preHeap)
		}
		fr.loopEntry[fr.block.Index] = snap
		return false
	}
	// back edge: preserve
	for k, c := range lc.Invariants {
		t := e.evalClause(st, ld.fc, c, e.loopClauseArgs(st, fr, c, ld), e.preHeap)
		e.oblige(st, fmt.Sprintf("%s.invariant#%d.preserved", loopName, k), "invariant-preserved", where, t)
	}
	e.frameCheck(st, where)
	if lc.Decreases != nil {
		snap := fr.loopEntry[fr.block.Index]
		d1 := e.evalClause(st, ld.fc, lc.Decreases, e.loopClauseArgs(st, fr, lc.Decreases, ld), e.preHeap)
		e.oblige(st, loopName+".decreases", "decreases", where, And(Le(IntC(0), snap.dec), Lt(d1, snap.dec)))
	}
	st.dead = true
	return true
}

const unrollLimit = 100

// havocLoop forgets everything the loop can write (local cells, heap prefixes, iterator positions).
func (e *Engine) havocLoop(st *State, fr *Frame, ld *loopDesc) {
	for _, a := range ld.modCells {
		ck := cellKey{fr.id, a}
		if _, live := st.cells[ck]; !live {
			continue
		}
		v, as := freshVal("loop$"+a.Comment, derefType(a.Type()))
		if rs := ld.modRange[a]; rs != nil {
			old := st.cells[ck]
			nv := append(Val{}, old...)
			for _, r := range rs {
				copy(nv[r[0]:r[0]+r[1]], v[r[0]:r[0]+r[1]])
			}
			v = nv
		}
		st.cells[ck] = v
		for _, x := range as {
			st.assume(x)
		}
	}
	framed := e.Mode == ModeVerify && e.TopFC != nil && e.TopFC.HasAssigns && !e.TopFC.Trusted
	if ld.modHeap["*"] {
		st.heap.havocPrefixF("*", framed)
	} else {
		for p := range ld.modHeap {
			st.heap.havocPrefixF(p, framed)
		}
	}
	if ld.rangeIdx != nil {
		v := st.cells[cellKey{fr.id, ld.rangeIdx}]
		st.assume(Le(IntC(-1), v[0]))
	}
	// positions of iterators over symbolic strings are loop-carried state too
	for _, it := range st.iters {
		if it.kind == "strsym" {
			np := Fresh("strpos", SInt)
			st.assume(And(Le(IntC(0), np), Le(np, strLen(it.sref))))
			it.posT = np
		}
	}
}

func firstPos(b *ssa.BasicBlock) token.Pos {
	for _, ins := range b.Instrs {
		if _, isDbg := ins.(*ssa.DebugRef); isDbg {
			continue
		}
		if p := ins.Pos(); p.IsValid() {
			return p
		}
	}
	for _, s := range b.Succs {
		for _, ins := range s.Instrs {
			if p := ins.Pos(); p.IsValid() {
				return p
			}
		}
	}
	return token.NoPos
}

// ---------------------------------------------------------------- function verification

type FuncReport struct {
	Func        string
	Instrs      int
	Paths       int
	Error       string // engine error (inconclusive), "" if none
	ErrorKind   string
	Obligations []*Obligation
	Trivial     map[string]int
	Cover       *Obligation
}

func (e *Engine) VerifyFunc(fn *ssa.Function, fc *FuncContract) (rep *FuncReport) {
	rep = &FuncReport{Func: shortFn(fn), Instrs: fnSize(fn)}
	startObl := len(e.Obls)
	e.Trivial = map[string]int{}
	defer func() {
		if r := recover(); r != nil {
			switch x := r.(type) {
			case *EngineError:
				rep.Error, rep.ErrorKind = x.msg, "engine"
			case *Unsupported:
				rep.Error, rep.ErrorKind = x.msg, "unsupported"
			case *MissingTarget:
				rep.Error, rep.ErrorKind = x.msg, "missing-target"
			default:
				panic(r)
			}
		}
		rep.Obligations = e.Obls[startObl:]
		rep.Trivial = e.Trivial
		rep.Paths = e.Paths
	}()
	e.TopFn, e.TopFC, e.Mode = fn, fc, ModeVerify
	e.Paths = 0
	e.specDepth = 0
	e.topFrame = nil
	st := &State{heap: &Heap{arr: map[string]*Term{}}, cells: map[cellKey]Val{}, eqs: map[*Term]*Term{},
		normMemo: map[*Term]*Term{}, iters: map[int64]*iterState{}}
	var args []Val
	var inputs []*Term
	for _, p := range fn.Params {
		v, as := namedVal("in$"+p.Name(), p.Type())
		args = append(args, v)
		inputs = append(inputs, v...)
		for _, a := range as {
			st.assume(a)
		}
	}
	e.preHeap = st.heap.clone()
	e.entryArgs = args
	for _, c := range fc.Requires {
		st.assume(e.evalClause(st, fc, c, args, e.preHeap))
	}
	e.preHeap = st.heap.clone()
	rep.Cover = &Obligation{Name: shortFn(fn) + ".requires-satisfiable", Kind: "cover", PC: append([]*Term{}, st.pc...), Goal: tFalse, Func: fn.String()}
	e.onReturn = func(s *State, fr *Frame, results []Val) {
		eargs := append(append([]Val{}, args...), results...)
		for k, c := range fc.Ensures {
			t := e.evalClause(s, fc, c, eargs, e.preHeap)
			e.oblige(s, fmt.Sprintf("%s.ensures#%d", shortFn(fn), k), "ensures", fr.block.Instrs[len(fr.block.Instrs)-1].Pos(), t)
		}
		e.frameCheck(s, fr.block.Instrs[len(fr.block.Instrs)-1].Pos())
	}
	fr := e.newFrame(fn, args)
	st.frames = []*Frame{fr}
	e.explore(st)
	for _, o := range e.Obls[startObl:] {
		o.Inputs = inputs
	}
	return rep
}
