#!/bin/bash
# usage: mkwt.sh <name> — scratch worktree of /repo HEAD under /tmp/wt/<name> for a seeding sub-agent, with the
# comment-only contract files removed (and that removal committed on the detached HEAD) so that the
# agent sees nothing of the verification work; removed again with: git -C /repo worktree remove --force /tmp/wt/<name>
set -e
name=$1
git -C /repo worktree add --detach /tmp/wt/$name HEAD >/dev/null 2>&1
cd /tmp/wt/$name
git rm -q $(git ls-files | grep -E 'zz_contracts_verif.go$|\.contracts$')
git -c user.name=scratch -c user.email=s@x commit -qm "scratch: drop comment-only files"
mkdir -p /tmp/wt/$name-out
echo /tmp/wt/$name
