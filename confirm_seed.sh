#!/bin/bash
# usage: confirm_seed.sh <outdir> <mode> — confirm a seeded change independently in a fresh scratch worktree.
#   mode = fer                 : <outdir>/run_demo.sh <tree> must exit 0 on the clean tree and non-zero with the patch
#   mode = gotest:<pkgdir>     : <outdir>/demo_test.go copied into <pkgdir>; `go test -run . ./<pkgdir>` (only the demo's tests) must pass clean, fail patched
# Checks: patch applies, go build ./... ok, full test suite passes with the patch, demo fails with / passes without.
out=$1; mode=$2
wt=$(mktemp -d /tmp/wt/confirm.XXXXXX); rmdir $wt
export GOFLAGS=-mod=mod GOPROXY=off
git -C /repo worktree add --detach $wt HEAD >/dev/null 2>&1 || { echo "worktree failed"; exit 2; }
cleanup() { git -C /repo worktree remove --force $wt >/dev/null 2>&1; rm -rf $wt; }
trap cleanup EXIT
cd $wt
demo() {
  case $mode in
    fer) bash $out/run_demo.sh $wt >/tmp/wt/$(basename $out).demo.log 2>&1; return $?;;
    gotest:*) pkg=${mode#gotest:}; cp $out/demo_test.go $wt/$pkg/zz_demo_test.go
       pat=$(grep -o '^func Test[A-Za-z0-9_]*' $out/demo_test.go | sed 's/func //' | paste -sd'|')
       go test -vet=off -count=1 -run "^($pat)\$" ./$pkg >/tmp/wt/$(basename $out).demo.log 2>&1; rc=$?; rm -f $wt/$pkg/zz_demo_test.go; return $rc;;
  esac
}
demo; clean_rc=$?
git apply $out/patch.diff || { echo "RESULT patch-does-not-apply"; exit 1; }
go build ./... >/tmp/wt/$(basename $out).build.log 2>&1; build_rc=$?
go test -vet=off -count=1 ./... >/tmp/wt/$(basename $out).suite.log 2>&1; suite_rc=$?
demo; patched_rc=$?
echo "RESULT $(basename $out) build=$build_rc suite=$suite_rc demo_clean=$clean_rc demo_patched=$patched_rc"
if [ $build_rc -eq 0 ] && [ $suite_rc -eq 0 ] && [ $clean_rc -eq 0 ] && [ $patched_rc -ne 0 ]; then echo CONFIRMED; else echo NOT-CONFIRMED; fi
