#!/bin/bash
# Runs every claimed quick check on the current tree (sequentially; each check is itself parallel) and reports.
cd "$(dirname "$0")"
fail=0
for p in $(python3 -c "import json;print(' '.join(c['property_id'] for c in json.load(open('MANIFEST.json'))['checks']))"); do
  out=$(timeout 1700 ./check $p 2>&1); code=$?
  echo "$out" | tail -1
  if [ $code -ne 0 ]; then fail=1; echo "$out" | grep -v "^$p:" | head -5; fi
done
./validate.py
exit $fail
