#!/usr/bin/env python3
"""Runs every model-free (family-search) replay recipe of every property on the CURRENT tree.
On the unchanged tree each must pass without printing REPLAY-CONFIRMED and without crashing:
a replay that 'confirms' on code where the property holds would turn a failed proof into a
false alarm with a bogus input.  usage: replay_selftest.py [Cnn ...]"""
import json, os, sys, glob, tempfile, shutil, hashlib
from importlib.machinery import SourceFileLoader
chk = SourceFileLoader("chk", os.path.join(os.path.dirname(os.path.abspath(__file__)), "check")).load_module()
bad = 0
props = sys.argv[1:] or sorted(os.path.basename(p)[:-5] for p in glob.glob(os.path.join(chk.ROOT, "props", "C*.json")))
chk.ensure_built()
for prop in props:
    cfg = json.load(open(os.path.join(chk.ROOT, "props", prop + ".json")))
    seen = set()
    for name, recipe in (cfg.get("replays") or {}).items():
        if recipe.get("needs"):
            continue
        h = hashlib.sha1(recipe["body"].encode()).hexdigest()
        if h in seen:
            continue
        seen.add(h)
        outdir = tempfile.mkdtemp(prefix="verif_rst_")
        try:
            obl = {"name": name if name != "*" else prop + ".any", "kind": "ensures", "status": "unknown", "func": ""}
            confirmed, rp = chk.run_replay(prop, cfg, obl, {"where": "", "model": {}, "smt_file": None}, {}, outdir, {})
            rec = json.load(open(rp))
            out = rec.get("replay_output", "")
            ok = confirmed is False
            known_open = any(k.get("property") == prop and k.get("status", "open") == "open" and k.get("obligation") == name for k in chk.load_known())
            if confirmed and known_open:
                # the replay of an OPEN known finding is supposed to reproduce it on this tree
                print("%s %-70s %s" % (prop, name[:70], "confirms (open known finding, expected)"))
                continue
            print("%s %-70s %s" % (prop, name[:70], "pass" if ok else ("CONFIRMS-ON-THIS-TREE" if confirmed else "DID-NOT-RUN-CLEANLY")))
            if not ok:
                bad += 1
                print(out[-1200:])
        finally:
            shutil.rmtree(outdir, ignore_errors=True)
sys.exit(1 if bad else 0)
