#!/usr/bin/env python3
"""usage: mkbaseline.py <Cnn> [maxsecs] — runs the units of props/<Cnn>.json once on the current tree and records as
baseline (= claimed) every clause-level obligation that discharged with every instance under maxsecs (default 6 s).
Obligations that do not discharge are left unclaimed (they show up as generated_not_claimed in the evidence)."""
import json, subprocess, sys, os
ROOT = os.path.dirname(os.path.abspath(__file__))
prop = sys.argv[1]; mx = float(sys.argv[2]) if len(sys.argv) > 2 else 6.0
cfgp = os.path.join(ROOT, "props", prop + ".json")
cfg = json.load(open(cfgp))
tmp = os.path.join(ROOT, "out", "baseline_" + prop)
u = dict(cfg); u.pop("baseline", None)
json.dump(u, open(os.path.join(ROOT, "out", "baseline_units.json"), "w"))
subprocess.run([os.path.join(ROOT, "bin/govc"), "-units", os.path.join(ROOT, "out", "baseline_units.json"), "-out", tmp, "-timeout", "20"], capture_output=True)
r = json.load(open(os.path.join(tmp, "result.json")))
base, skipped = [], []
for o in r["obligations"]:
    (base if o["status"] == "unsat" and o["max_secs"] <= mx else skipped).append((o["name"], o["status"], round(o["max_secs"], 1)))
cfg["baseline"] = [n for n, _, _ in base]
json.dump(cfg, open(cfgp, "w"), indent=1)
print("claimed", len(base), "not claimed:", skipped)
