#!/bin/bash
# Builds the verification engines from files on disk only (offline).
set -e
cd "$(dirname "$0")/govc"
export GOTOOLCHAIN=local PATH=/opt/veriftools/go1.26.8/bin:$PATH GOFLAGS=-mod=mod GOPROXY=off GOSUMDB=off
mkdir -p ../bin
go build -o ../bin/govc .
