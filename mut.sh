#!/bin/bash
# usage: mut.sh <file-in-repo> <sed-expr> <units.json>   — applies a mutation, runs govc, reverts
f=$1; expr=$2; units=$3
cd /repo && cp $f /tmp/mut_backup.go && sed -i "$expr" $f && (git diff --stat -- $f | tail -1)
cd /verif && timeout 300 ./bin/govc -units $units -out out/mut 2>&1 | tail -6 | cut -c1-250
cp /tmp/mut_backup.go /repo/$f; cd /repo && git status --short -- $f
