#!/usr/bin/env python3
"""Regenerates MANIFEST.json from props/*.json (single source of truth per property)."""
import json, os, glob

ROOT = os.path.dirname(os.path.abspath(__file__))
TECH = "contract-based deductive verification (symbolic execution of the real code against //@ contracts, SMT discharge by z3/cvc5)"
ALL = ["C%02d" % i for i in range(1, 21)]

checks = []
na = []
engines = {"govc": [], "llvc": []}
for pid in ALL:
    p = os.path.join(ROOT, "props", pid + ".json")
    cfg = json.load(open(p)) if os.path.exists(p) else None
    if not cfg or cfg.get("not_applicable"):
        reason = (cfg or {}).get("not_applicable") or "not yet brought under contract in this build (work in progress); no check is claimed"
        na.append({"property_id": pid, "reason": reason})
        continue
    eng = cfg.get("engine", "govc")
    engines.setdefault(eng, []).append(pid)
    checks.append({
        "property_id": pid,
        "quick_cmd": "./check %s --tier quick" % pid,
        "thorough_cmd": "./check %s --tier thorough" % pid,
        "evidence_file": "evidence/%s.json" % pid,
        "replay_cmd_template": "./check %s --replay {path}" % pid,
        "engine": eng,
        "level_claimed": {"category": cfg.get("level", "other"), "text": cfg.get("level_text") or cfg.get("explanation", ""),
                          "design_ref": "DESIGN.md §5 " + pid},
        "level_note": cfg.get("level_note") or ("Not decided: " + cfg.get("not_decided", "") + " Assumptions: " + "; ".join(cfg.get("assumptions") or [])),
        "technique": cfg.get("technique", TECH) + (" + bounded stand-ins (enumerated / native runs of the real function on a stated family, labelled bounded in the evidence and never counted as proved) for the parts out of the verifier's reach" if (cfg.get("bounded_go") or cfg.get("extra_llvc") or pid == "C16") else ""),
    })

import subprocess
hooks_commits = subprocess.run(["git", "-C", "/repo", "log", "--format=%h", "--grep=^verif:", "--reverse"], capture_output=True, text=True).stdout.split()
m = {
    "version": 1,
    "setup_cmd": "./build.sh",
    "hooks": {
        "guard": "verif",
        "enable": "contracts are comment-only files zz_contracts_verif.go (//go:build verif) and runtime/core/*.contracts, read as text by the engines in /verif/bin; nothing is compiled into the repository with or without the tag",
        "baseline_off_cmd": "cd /repo && GOFLAGS=-mod=mod GOPROXY=off go test -vet=off -count=1 ./...",
        "source_commits": hooks_commits,
        "add_only": True,
    },
    "engines": [
        {"name": "govc", "path": "govc/", "serves_properties": engines.get("govc", []),
         "kind_free_text": "contract-based deductive verifier for Go written for this task: //@ contracts are compiled to ghost Go functions in an overlay, the real functions are symbolically executed over go/ssa (loops cut at invariants, calls replaced by contracts), every obligation is an SMT-LIB query raced on z3 5.1 / z3 4.8 / cvc5"},
        {"name": "llvc", "path": "llvc/", "serves_properties": engines.get("llvc", []),
         "kind_free_text": "contract checker for the C runtime: clang -O2 LLVM IR of the real .c file is executed symbolically into bit-vector SMT obligations against .contracts files"},
    ],
    "checks": checks,
    "not_applicable": na,
    "notes": "see DESIGN.md; known_findings.json lists fixed and open findings",
}
json.dump(m, open(os.path.join(ROOT, "MANIFEST.json"), "w"), indent=1)
print("checks:", [c["property_id"] for c in checks], "not_applicable:", [n["property_id"] for n in na])
